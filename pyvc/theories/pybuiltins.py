"""T-py: Python builtins and str/bytes/list/dict/set methods over the symbolic value model.

Character classes (whitespace for str.strip, Unicode digits for str.isdigit / int()) are computed
from the running CPython at import time, so the theory is the interpreter's own tables.
z3's alphabet is 0..0x2FFFF; Python's is 0..0x10FFFF.  A-alphabet: characters above 0x2FFFF belong
to none of the classes this code base distinguishes (checked below), so they are represented by
any other 'ordinary' character.
"""
from __future__ import annotations

import sys

import z3

from .. import pyops
from ..ctx import Unsupported
from ..engine import Interp, PyRaise
from ..pyops import PyExc
from ..values import (SXReal, BoundMethod, Builtin, ClassVal, EnumVal, FuncVal, Ignored, ModuleVal, PDict, PList, PSet,
                      SBool, SBytes, SExc, SFloat, SInt, SMapZ, SObj, SOpaque, SOpt, SRef, SSeq, SSetZ, SStr,
                      Sym, TheoryObj, is_concrete, to_z3, wrap)

Z3_MAXCHAR = 0x2FFFF


def _ranges(pred):
    out, start = [], None
    for cp in range(0, sys.maxunicode + 1):
        ok = pred(chr(cp))
        if ok and start is None:
            start = cp
        elif not ok and start is not None:
            out.append((start, cp - 1))
            start = None
    if start is not None:
        out.append((start, sys.maxunicode))
    return out


WS_RANGES = _ranges(str.isspace)
DIGIT_RANGES = _ranges(str.isdigit)      # str.isdigit(): Numeric_Type in {Decimal, Digit}
DECIMAL_RANGES = _ranges(str.isdecimal)  # int() accepts exactly Nd (plus sign/underscore/space syntax)
for _rs in (WS_RANGES, DIGIT_RANGES, DECIMAL_RANGES):
    assert all(hi <= Z3_MAXCHAR for _lo, hi in _rs), "A-alphabet violated"

_RE_CACHE = {}


def _chr(cp):
    return z3.StringVal(chr(cp)) if cp < 128 and chr(cp).isprintable() and chr(cp) not in '\\"' \
        else z3.Unit(z3.CharVal(cp))


def re_class(ranges):
    key = tuple(ranges)
    if key not in _RE_CACHE:
        parts = []
        for lo, hi in ranges:
            parts.append(z3.Range(_chr(lo), _chr(hi)) if lo != hi else z3.Re(_chr(lo)))
        _RE_CACHE[key] = z3.Union(*parts) if len(parts) > 1 else parts[0]
    return _RE_CACHE[key]


def re_ws():
    return re_class(WS_RANGES)


def re_digit():
    return re_class(DIGIT_RANGES)


def re_decimal():
    return re_class(DECIMAL_RANGES)


def re_allchar():
    return z3.AllChar(z3.ReSort(z3.StringSort()))


def re_not_class(ranges):
    comp, prev = [], 0
    for lo, hi in ranges:
        if lo > prev:
            comp.append((prev, lo - 1))
        prev = hi + 1
    if prev <= Z3_MAXCHAR:
        comp.append((prev, Z3_MAXCHAR))
    return re_class(comp)


ASCII_DIGIT = z3.Range("0", "9")


def not_contains(s, lit: str):
    """s does not contain the literal `lit`. For single characters stated as regex membership (z3 decides
    InRe-conjunctions fast but is slow on negated str.contains next to a regex constraint)."""
    if len(lit) == 1:
        return z3.InRe(s, z3.Star(re_not_class([(ord(lit), ord(lit))])))
    return z3.Not(z3.Contains(s, z3.StringVal(lit)))


def str_in_class_star(s, cls):
    return z3.InRe(s, z3.Star(cls))


# ----------------------------------------------------------------------------------- builtins
def _arg(args, kwargs, i, name, default=None):
    if i < len(args):
        return args[i]
    return kwargs.get(name, default)


def symiter_len(I, it):
    """len() of a collection of unknown size: a natural number, positive iff non-empty; a filtered/mapped collection is no
    longer than its source."""
    n = it.fields.get("len")
    if n is None:
        n = I.ctx.fresh_int("len")
        it.fields["len"] = n
        I.ctx.assume(z3.And(n >= 0, (n > 0) == I.symiter_nonempty(it)))
        par = it.fields.get("parent")
        if isinstance(par, TheoryObj) and par.theory == "symiter":
            I.ctx.assume(n <= symiter_len(I, par))
            for w, inl in par.fields.get("witnesses", []):
                pass
    return n


def b_len(I: Interp, args, kw):
    v = I.force(args[0])
    if isinstance(v, TheoryObj) and v.theory == "symiter":
        return SInt(symiter_len(I, v))
    if isinstance(v, (TheoryObj, SOpaque)):
        return I.call_method(v, "__len__", [], {})
    if isinstance(v, SObj):
        return I.call(I.getattr(v, "__len__"), [], {})
    if v is None:
        raise PyExc("TypeError", "len(None)")
    return pyops.py_len(v)


def b_min(I, args, kw):
    return _minmax(I, args, kw, pyops.py_min2, "min")


def b_max(I, args, kw):
    return _minmax(I, args, kw, pyops.py_max2, "max")


def _minmax(I, args, kw, f, name):
    key = kw.get("key")
    if len(args) == 1:
        coll = I.force(args[0])
        if isinstance(coll, (SSeq, SSetZ)):
            hook = I.reg.builtins.get(f"__{name}_symbolic__")
            if hook is None:
                raise Unsupported(f"{name} over collection of unknown size")
            return hook.fn(I, [coll], kw)
        items = I.iter_concrete(coll)
        if not items:
            if "default" in kw:
                return kw["default"]
            raise PyExc("ValueError", f"{name}() of empty sequence")
    else:
        items = list(args)
    if key is not None:
        best, bk = items[0], I.call(key, [items[0]], {})
        for it in items[1:]:
            k = I.call(key, [it], {})
            better = pyops.py_order("<" if name == "min" else ">", I.force(k), I.force(bk))
            if isinstance(better, bool):
                take = better
            else:
                take = I.ctx.decide(better, name)
            if take:
                best, bk = it, k
        return best
    acc = I.force(items[0])
    for it in items[1:]:
        it = I.force(it)
        if acc is None or it is None:
            raise PyExc("TypeError", f"{name} with None")
        acc = f(acc, it)
    return acc


def b_int(I, args, kw):
    if not args:
        return 0
    v = I.force(args[0])
    if v is None:
        raise PyExc("TypeError", "int(None)")
    if isinstance(v, (bool, int)):
        return int(v)
    if isinstance(v, SInt):
        return v
    if isinstance(v, SBool):
        return pyops.mk_int(pyops.int_z(v))
    if isinstance(v, float):
        try:
            return int(v)
        except ValueError:
            raise PyExc("ValueError")
        except OverflowError:
            raise PyExc("OverflowError")
    if isinstance(v, SFloat):
        if I.ctx.decide(z3.fpIsNaN(v.z), "int(nan)"):
            raise PyExc("ValueError")
        if I.ctx.decide(z3.fpIsInf(v.z), "int(inf)"):
            raise PyExc("OverflowError")
        return SInt(z3.ToInt(z3.fpToReal(z3.fpRoundToIntegral(z3.RTZ(), v.z))))
    if isinstance(v, SXReal):
        if I.ctx.decide(v.nan, "int(nan)"):
            raise PyExc("ValueError")
        if I.ctx.decide(v.inf != 0, "int(inf)"):
            raise PyExc("OverflowError")
        return SInt(z3.If(v.r >= 0, z3.ToInt(v.r), -z3.ToInt(-v.r)))
    if isinstance(v, (TheoryObj, SOpaque)):
        return I.call_method(v, "__int__", [], {})
    if isinstance(v, str):
        try:
            return int(v)
        except ValueError:
            raise PyExc("ValueError", f"int({v!r})")
    if isinstance(v, SStr):
        return int_of_str(I, v.z)
    if isinstance(v, (bytes, SBytes)):
        raise Unsupported("int(bytes)")
    raise PyExc("TypeError", f"int({type(v).__name__})")


PYINT = z3.Function("py.int_of_str", z3.StringSort(), z3.IntSort())
import sys as _sys
INT_MAX_STR_DIGITS = (_sys.get_int_max_str_digits() if hasattr(_sys, "get_int_max_str_digits") else 0) or 4300
INT_LIMIT_MODEL = 64
TOO_MANY_DIGITS = z3.Function("py.int_str_exceeds_digit_limit", z3.StringSort(), z3.BoolSort())


def int_of_str(I, s):
    """int(str): T-py axiom INT-PARSE.
    accepted  <=>  s in WS* [+-]? Nd (_? Nd)* WS*   (CPython int() grammar, base 10)
    value: the function PYINT(s); for ASCII-digit-only payloads PYINT(s) = StrToInt(s); non-negative without '-'."""
    I.ctx.use("T-py:int(str) grammar = WS* [+-]? Nd(_?Nd)* WS*; value = a function of the string")
    c = I.ctx
    r = PYINT(s)
    # CPython >= 3.11: int() of a decimal string with more than sys.get_int_max_str_digits() (default 4300) digits raises ValueError
    # Over-approximated so that the solver never has to build a 4301-character witness: the model lets int() refuse ANY string
    # longer than INT_LIMIT_MODEL characters (predicate TooManyDigits, constrained only by that length bound).  Every real refusal
    # (more than 4300 digits) is covered; code that int()s a string of known length between the two bounds could get a false alarm.
    if not I.reg.modconsts.get("py.int_digit_limit"):
        # harnesses whose strings are bounded by A-names (file names / object keys <= 1024 bytes < the limit) do not enable the rule
        c.use(f"T-py:int(str): the interpreter's digit limit ({INT_MAX_STR_DIGITS}) is not reachable here (A-names: parsed names are at most 1024 bytes)")
    elif c.decide(TOO_MANY_DIGITS(s), "int-str-exceeds-the-digit-limit"):
        c.assume(z3.Length(s) > INT_LIMIT_MODEL)
        c.use(f"T-py:int(str) raises ValueError beyond {INT_MAX_STR_DIGITS} digits (sys.get_int_max_str_digits of the running interpreter); "
              f"modelled as: may refuse any string longer than {INT_LIMIT_MODEL} characters")
        raise PyExc("ValueError", "Exceeds the limit for integer string conversion")
    if c.decide(z3.InRe(s, z3.Plus(ASCII_DIGIT)), "int-ascii"):
        c.assume(r == z3.StrToInt(s))
        c.assume(r >= 0)
        return SInt(r)
    nd = re_decimal()
    if c.decide(z3.InRe(s, z3.Plus(nd)), "int-all-decimal"):
        c.assume(r >= 0)
        return SInt(r)
    if c.decide(z3.InRe(s, z3.Concat(z3.Re("-"), z3.Plus(ASCII_DIGIT))), "int-ascii-neg"):
        c.assume(r == -z3.StrToInt(z3.SubString(s, 1, z3.Length(s) - 1)))
        return SInt(r)
    ws = re_ws()
    body = z3.Concat(nd, z3.Star(z3.Concat(z3.Option(z3.Re("_")), nd)))
    unsigned = z3.Concat(z3.Star(ws), z3.Option(z3.Re("+")), body, z3.Star(ws))
    if c.decide(z3.InRe(s, unsigned), "int-parse-unsigned"):
        c.assume(r >= 0)
        return SInt(r)
    negative = z3.Concat(z3.Star(ws), z3.Re("-"), body, z3.Star(ws))
    if c.decide(z3.InRe(s, negative), "int-parse-negative"):
        c.assume(r <= 0)
        return SInt(r)
    raise PyExc("ValueError", "invalid literal for int()")


def b_float(I, args, kw):
    v = I.force(args[0]) if args else 0.0
    if isinstance(v, (bool, int, float)):
        return float(v)
    if isinstance(v, SFloat):
        return v
    if isinstance(v, (SInt, SBool)):
        return SFloat(z3.fpToFP(z3.RNE(), z3.ToReal(pyops.int_z(v)), z3.Float64()))
    if isinstance(v, str):
        try:
            return float(v)
        except ValueError:
            raise PyExc("ValueError")
    if isinstance(v, SStr):
        I.ctx.use("T-py:float(str) accepts an unspecified set of strings")
        if I.ctx.flip("float-parse"):
            raise PyExc("ValueError")
        return SFloat(I.ctx.fresh("fl", z3.Float64()))
    if v is None:
        raise PyExc("TypeError")
    raise PyExc("TypeError")


def b_str(I, args, kw):
    if not args:
        return ""
    return I.to_str(args[0])


def b_bool(I, args, kw):
    if not args:
        return False
    return pyops.mk_bool(pyops.bool_z(I.truth(args[0])))


def b_bytes(I, args, kw):
    if not args:
        return b""
    v = I.force(args[0])
    if isinstance(v, (bytes, SBytes)):
        return v
    if isinstance(v, (TheoryObj, SOpaque)):
        return I.call_method(v, "__bytes__", [], {})
    raise Unsupported(f"bytes({type(v).__name__})")


OPAQUE_BASES = {"datetime.datetime": ("datetime.date",)}

_TYPE_TESTS = {
    "str": lambda v: isinstance(v, (str, SStr)),
    "bytes": lambda v: isinstance(v, (bytes, SBytes)),
    "bool": lambda v: isinstance(v, (bool, SBool)),
    "int": lambda v: isinstance(v, (bool, int, SInt, SBool)),
    "float": lambda v: isinstance(v, (float, SFloat, SXReal)),
    "dict": lambda v: isinstance(v, (PDict, SMapZ)),
    "list": lambda v: isinstance(v, (PList, SSeq)),
    "tuple": lambda v: isinstance(v, tuple),
    "set": lambda v: isinstance(v, (PSet, SSetZ)),
    "frozenset": lambda v: isinstance(v, frozenset),
}


def py_isinstance(I, v, t) -> bool:
    if isinstance(t, (tuple, PList)):
        items = t if isinstance(t, tuple) else t.items
        return any(py_isinstance(I, v, x) for x in items)
    if isinstance(t, Builtin):
        f = _TYPE_TESTS.get(t.name)
        if f is None:
            raise Unsupported(f"isinstance(_, {t.name})")
        return f(v)
    if isinstance(t, ClassVal):
        if isinstance(v, SExc):
            return I.exc_isinstance(v.cls, t.name)
        if isinstance(v, SObj):
            ci = I.repo.find_class(v.cls)
            if ci is None:
                return v.cls == t.name
            return any(c.name == t.name for c in I.repo.mro(ci))
        if isinstance(v, EnumVal):
            return v.cls == t.name
        if isinstance(v, TheoryObj):
            pc = v.fields.get("__pyclass__")
            if pc is None:
                raise Unsupported(f"isinstance({v!r}, {t.name}): theory object without __pyclass__")
            ci = I.repo.find_class(pc)
            if ci is None:
                return pc == t.name
            return any(c.name == t.name for c in I.repo.mro(ci))
        if isinstance(v, SOpaque):
            return v.sort == t.name
        if isinstance(v, SRef):
            return v.cls == t.name
        return False
    if isinstance(t, ModuleVal):
        # external classes (datetime, date, pd.DataFrame, pa.Table ...)
        if isinstance(v, SOpaque):
            return v.sort == t.name or t.name.endswith("." + v.sort) or t.name in OPAQUE_BASES.get(v.sort, ())
        if isinstance(v, TheoryObj):
            return v.fields.get("__pyclass__") == t.name or t.name.endswith("." + str(v.fields.get("__pyclass__")))
        return False
    raise Unsupported(f"isinstance(_, {t!r})")


def b_isinstance(I, args, kw):
    v, t = args
    if isinstance(v, SOpt):
        v = I.force(v)
    return py_isinstance(I, v, t)


def b_hasattr(I, args, kw):
    v, name = args
    v = I.force(v)
    if isinstance(v, EnumVal):
        return name in ("value", "name")
    if isinstance(v, SObj):
        if name in v.fields:
            return True
        ci = I.repo.find_class(v.cls)
        return bool(ci and I.repo.lookup_method(ci, name))
    if isinstance(v, (str, SStr, int, SInt, bool, SBool, float, SFloat, bytes, SBytes)) or v is None:
        return name in ()  # none of the attributes the code probes ('value') exist on scalars
    if isinstance(v, SExc):
        return name in v.fields
    if isinstance(v, (TheoryObj, SOpaque)):
        th = v.theory if isinstance(v, TheoryObj) else v.sort
        return (th, name) in I.reg.theory_methods or (th, name) in I.reg.theory_attrs or \
            (isinstance(v, TheoryObj) and name in v.fields)
    raise Unsupported(f"hasattr on {type(v).__name__}")


def b_getattr(I, args, kw):
    v, name = args[0], args[1]
    try:
        if isinstance(I.force(v), SExc) and name not in I.force(v).fields:
            raise PyExc("AttributeError")
        return I.getattr(v, name)
    except (PyExc, Unsupported) as e:
        if len(args) > 2 and (isinstance(e, PyExc) and e.cls == "AttributeError" or isinstance(e, Unsupported)):
            return args[2]
        raise


def b_list(I, args, kw):
    if not args:
        return PList([])
    v = I.force(args[0])
    if isinstance(v, SSeq):
        return SSeq(v.kind, v.z)
    if isinstance(v, TheoryObj) and v.theory == "symiter":
        f2 = dict(v.fields)
        f2["appended"] = list(v.fields.get("appended", []))
        f2["copy_of"] = v
        return TheoryObj("symiter", label=v.label, fields=f2)   # a copy of a collection of unknown size: same elements
    if isinstance(v, TheoryObj) and v.theory == "stale":
        # list(<value left by an earlier call>): some list of unknown content
        return TheoryObj("symiter", label=f"list({v.label})", fields={"mk": lambda I2: TheoryObj("stale", label="elem", fields={"__overloads__": True}), "from_stale": True})
    if isinstance(v, TheoryObj) and v.theory == "acc":
        return v            # a copy of an append-only accumulator (read-only uses only)
    if isinstance(v, SMapZ) or isinstance(v, SSetZ):
        raise Unsupported("list() of a symbolic set/map")
    return PList(I.iter_concrete(v))


def b_tuple(I, args, kw):
    if not args:
        return ()
    return tuple(I.iter_concrete(args[0]))


def b_set(I, args, kw):
    if not args:
        return PSet([])
    v = I.force(args[0])
    if isinstance(v, SSetZ):
        return SSetZ(v.kind, v.z)
    if isinstance(v, SSeq):
        hook = I.reg.builtins.get("__set_of_seq__")
        if hook is None:
            raise Unsupported("set() of a sequence of unknown length")
        return hook.fn(I, [v], kw)
    return PSet(I.iter_concrete(v))


def b_frozenset(I, args, kw):
    if not args:
        return frozenset()
    items = I.iter_concrete(args[0])
    if all(is_concrete(x) for x in items):
        return frozenset(items)
    return PSet(items)


def b_dict(I, args, kw):
    d = {}
    if args:
        v = I.force(args[0])
        if isinstance(v, PDict):
            d.update(v.d)
        else:
            for pair in I.iter_concrete(v):
                k, val = pair
                d[k] = val
    d.update(kw)
    return PDict(d)


def b_range(I, args, kw):
    a = [I.force(x) for x in args]
    if all(isinstance(x, int) for x in a):
        return tuple(range(*a))
    if len(a) == 1:
        return ("__range__", z3.IntVal(0), pyops.int_z(a[0]))
    if len(a) == 2:
        return ("__range__", pyops.int_z(a[0]), pyops.int_z(a[1]))
    if len(a) == 3 and isinstance(a[2], int) and not isinstance(a[2], bool) and a[2] > 0:
        return ("__range__", pyops.int_z(a[0]), pyops.int_z(a[1]), a[2])      # positive concrete step
    raise Unsupported("range with symbolic or non-positive step")


def b_enumerate(I, args, kw):
    v = I.force(args[0])
    start = kw.get("start", args[1] if len(args) > 1 else 0)
    if isinstance(v, TheoryObj) and v.theory == "symiter":
        # (index, element) pairs of a list of unknown size: the index of an arbitrary element is some natural number
        def mk(I2):
            i = I2.ctx.fresh_int("enum_index")
            I2.ctx.assume(i >= pyops.int_z(start))
            return (SInt(i), v.fields["mk"](I2))
        out = TheoryObj("symiter", fields={"mk": mk, "parent": v})
        I.ctx.assume(I.symiter_nonempty(out) == I.symiter_nonempty(v))
        return out
    if isinstance(v, SSeq):
        return ("__enumerate__", v, start)
    return tuple((start + i, x) for i, x in enumerate(I.iter_concrete(v)))


def b_zip(I, args, kw):
    return tuple(zip(*[I.iter_concrete(a) for a in args]))


def b_reversed(I, args, kw):
    v = I.force(args[0])
    if isinstance(v, SSeq):
        return ("__reversed__", v)
    return tuple(reversed(I.iter_concrete(v)))


def _symgen_anyall(I, gen, is_any):
    """any()/all() over a generator on a collection of unknown size (TheoryObj 'symiter').
    Sound under-specification: the element expression is evaluated on one arbitrary element (so every exception
    an element can cause is explored), and on each designated witness w (with membership predicate inlist(w)):
      any: (inlist(w) and P(w)) => result        all: result => (inlist(w) => P(w))."""
    from ..engine import _MISSING
    it = gen.fields["iter"]
    I.ctx.use("T-py:any/all over a collection of unknown size: result constrained only through designated witnesses")
    if I.ctx.decide(I.symiter_nonempty(it), "symgen-nonempty"):
        a = it.fields["mk"](I)
        I.eval_gen_element(gen, a)   # may raise (TypeError ...) exactly as some element could
    r = I.ctx.fresh_bool("any" if is_any else "all")
    for w, inlist in it.fields.get("witnesses", []):
        pv = I.eval_gen_element(gen, w)
        if pv is _MISSING:
            continue
        t = pyops.bool_z(pyops.truth(pv))
        if is_any:
            I.ctx.assume(z3.Implies(z3.And(inlist, t), r))
        else:
            I.ctx.assume(z3.Implies(r, z3.Implies(inlist, t)))
    return SBool(r)


def b_any(I, args, kw):
    if isinstance(args[0], TheoryObj) and args[0].theory == "symgen":
        return _symgen_anyall(I, args[0], True)
    for x in I.iter_concrete(args[0]):
        if I.decide_truth(x):
            return True
    return False


def b_all(I, args, kw):
    if isinstance(args[0], TheoryObj) and args[0].theory == "symgen":
        return _symgen_anyall(I, args[0], False)
    for x in I.iter_concrete(args[0]):
        if not I.decide_truth(x):
            return False
    return True


def b_next(I, args, kw):
    items = I.iter_concrete(args[0])
    if items:
        return items[0]
    if len(args) > 1:
        return args[1]
    raise PyExc("StopIteration")


def b_sum(I, args, kw):
    acc = args[1] if len(args) > 1 else 0
    v = I.force(args[0])
    if isinstance(v, (SSeq, SSetZ)):
        hook = I.reg.builtins.get("__sum_symbolic__")
        if hook is None:
            raise Unsupported("sum over collection of unknown size")
        return hook.fn(I, [v], kw)
    for x in I.iter_concrete(v):
        acc = pyops.py_binop("+", I.force(acc), I.force(x), I.ctx)
    return acc


def b_sorted(I, args, kw):
    v = I.force(args[0])
    key = kw.get("key")
    if isinstance(v, SSeq):
        hook = I.reg.builtins.get("__sorted_symbolic__")
        if hook is None:
            raise Unsupported("sorted over a sequence of unknown length")
        return hook.fn(I, [v], kw)
    items = I.iter_concrete(v)
    keys = [I.force(I.call(key, [x], {})) if key is not None else I.force(x) for x in items]
    if all(not isinstance(k, Sym) for k in keys):
        try:
            order = sorted(range(len(items)), key=lambda i: keys[i], reverse=bool(kw.get("reverse", False)))
        except TypeError:
            raise PyExc("TypeError")
        return PList([items[i] for i in order])
    # insertion sort with symbolic comparisons (stable), forks on each comparison
    out, outk = [], []
    for it, k in zip(items, keys):
        pos = len(out)
        while pos > 0:
            lt = pyops.py_order("<", k, outk[pos - 1])
            take = lt if isinstance(lt, bool) else I.ctx.decide(lt, "sorted")
            if not take:
                break
            pos -= 1
        out.insert(pos, it)
        outk.insert(pos, k)
    if kw.get("reverse"):
        raise Unsupported("sorted(reverse=True) with symbolic keys")
    return PList(out)


def b_abs(I, args, kw):
    v = I.force(args[0])
    if not isinstance(v, Sym):
        return abs(v)
    if isinstance(v, SInt):
        return pyops.mk_int(z3.If(v.z >= 0, v.z, -v.z))
    if isinstance(v, SFloat):
        return SFloat(z3.fpAbs(v.z))
    raise PyExc("TypeError")


def b_id(I, args, kw):
    return SInt(I.ctx.fresh_int("id"))


def b_repr(I, args, kw):
    return SStr(I.ctx.fresh_str("repr"))


def b_type(I, args, kw):
    v = args[0]
    if isinstance(v, SObj):
        ci = I.repo.find_class(v.cls)
        return ClassVal(v.cls, ci)
    if isinstance(v, SExc):
        return ClassVal(v.cls)
    return Ignored("type")


def b_callable(I, args, kw):
    return isinstance(args[0], (FuncVal, Builtin, BoundMethod, ClassVal))


def b_iter(I, args, kw):
    return PList(I.iter_concrete(args[0]))


def b_print(I, args, kw):
    return None


def b_super(I, args, kw):
    frames = getattr(I, "frames", [])
    for owner, obj in reversed(frames):
        if owner is not None and obj is not None:
            return TheoryObj("super", fields={"cls": owner, "obj": obj})
    raise Unsupported("super() outside a method")


# ----------------------------------------------------------------------------------- str methods
def _s(v):
    return pyops.str_z(v)


def _concrete_strs(*vs):
    return all(isinstance(v, (str, bytes)) for v in vs)


def _mk_like(recv, z):
    if pyops.is_byteslike(recv):
        z = z3.simplify(z)
        if z3.is_string_value(z) and "\\u{" not in z.as_string():
            return z.as_string().encode("latin-1")
        return SBytes(z)
    return pyops.mk_str(z)


def m_startswith(I, recv, args, kw):
    p = I.force(args[0])
    if isinstance(p, tuple):
        return pyops.mk_bool(pyops._disj([pyops.bool_z(pyops.truth(m_startswith(I, recv, [x], {}))) if True else False for x in p]))
    if _concrete_strs(recv, p):
        return recv.startswith(p)
    if not (pyops.is_strlike(p) or pyops.is_byteslike(p)):
        raise PyExc("TypeError")
    return pyops.mk_bool(z3.PrefixOf(_s(p), _s(recv)))


def m_endswith(I, recv, args, kw):
    p = I.force(args[0])
    if _concrete_strs(recv, p):
        return recv.endswith(p)
    return pyops.mk_bool(z3.SuffixOf(_s(p), _s(recv)))


def _strip_chars(I, chars):
    if chars is None:
        return None
    chars = I.force(chars)
    if not isinstance(chars, (str, bytes)):
        raise Unsupported("strip with symbolic character set")
    return chars if isinstance(chars, str) else chars.decode("latin-1")


def _class_of(chars):
    if chars is None:
        return re_ws(), re_not_class(WS_RANGES)
    cls = z3.Union(*[z3.Re(_chr(ord(c))) for c in chars]) if len(chars) > 1 else z3.Re(_chr(ord(chars)))
    ranges = sorted((ord(c), ord(c)) for c in set(chars))
    merged = []
    for lo, hi in ranges:
        if merged and lo <= merged[-1][1] + 1:
            merged[-1] = (merged[-1][0], max(hi, merged[-1][1]))
        else:
            merged.append((lo, hi))
    return cls, re_not_class(merged)


def m_lstrip(I, recv, args, kw):
    chars = _strip_chars(I, args[0] if args else None)
    if isinstance(recv, (str, bytes)):
        return recv.lstrip(chars if isinstance(recv, str) or chars is None else chars.encode("latin-1"))
    cls, ncls = _class_of(chars)
    c = I.ctx
    s = _s(recv)
    tag = "ws" if chars is None else "".join(f"{ord(ch):x}" for ch in chars)
    # functions of the subject string: the same string always strips to the same result (congruence)
    pre = z3.Function(f"str.lstrip_removed[{tag}]", z3.StringSort(), z3.StringSort())(s)
    res = z3.Function(f"str.lstrip[{tag}]", z3.StringSort(), z3.StringSort())(s)
    c.assume(s == z3.Concat(pre, res))
    c.assume(z3.InRe(pre, z3.Star(cls)))
    c.assume(z3.Or(res == z3.StringVal(""), z3.InRe(res, z3.Concat(ncls, z3.Star(re_allchar())))))
    c.use("T-py:str.lstrip definitional (s = pre ++ res, pre in C*, res empty or starting outside C)")
    return _mk_like(recv, res)


def m_rstrip(I, recv, args, kw):
    chars = _strip_chars(I, args[0] if args else None)
    if isinstance(recv, (str, bytes)):
        return recv.rstrip(chars if isinstance(recv, str) or chars is None else chars.encode("latin-1"))
    cls, ncls = _class_of(chars)
    c = I.ctx
    s = _s(recv)
    tag = "ws" if chars is None else "".join(f"{ord(ch):x}" for ch in chars)
    post = z3.Function(f"str.rstrip_removed[{tag}]", z3.StringSort(), z3.StringSort())(s)
    res = z3.Function(f"str.rstrip[{tag}]", z3.StringSort(), z3.StringSort())(s)
    c.assume(s == z3.Concat(res, post))
    c.assume(z3.InRe(post, z3.Star(cls)))
    c.assume(z3.Or(res == z3.StringVal(""), z3.InRe(res, z3.Concat(z3.Star(re_allchar()), ncls))))
    c.use("T-py:str.rstrip definitional")
    return _mk_like(recv, res)


def m_strip(I, recv, args, kw):
    chars = _strip_chars(I, args[0] if args else None)
    if isinstance(recv, (str, bytes)):
        return recv.strip(chars if isinstance(recv, str) or chars is None else chars.encode("latin-1"))
    cls, ncls = _class_of(chars)
    c = I.ctx
    s = _s(recv)
    tag = "ws" if chars is None else "".join(f"{ord(ch):x}" for ch in chars)
    F = lambda nm: z3.Function(f"str.{nm}[{tag}]", z3.StringSort(), z3.StringSort())(s)
    pre, res, post = F("strip_removed_left"), F("strip"), F("strip_removed_right")
    c.assume(s == z3.Concat(pre, res, post))
    c.assume(z3.InRe(pre, z3.Star(cls)))
    c.assume(z3.InRe(post, z3.Star(cls)))
    c.assume(z3.Or(z3.And(res == z3.StringVal(""), post == z3.StringVal("")),
                   z3.InRe(res, z3.Union(ncls, z3.Concat(ncls, z3.Star(re_allchar()), ncls)))))
    c.use("T-py:str.strip definitional")
    return _mk_like(recv, res)


def m_lower(I, recv, args, kw):
    if isinstance(recv, str):
        return recv.lower()
    f = z3.Function("str.lower", z3.StringSort(), z3.StringSort())
    I.ctx.use("T-py:str.lower uninterpreted (only lower(c)=c' for the concrete literals compared against)")
    return SStr(f(_s(recv)))


def m_upper(I, recv, args, kw):
    if isinstance(recv, str):
        return recv.upper()
    f = z3.Function("str.upper", z3.StringSort(), z3.StringSort())
    return SStr(f(_s(recv)))


def m_isdigit(I, recv, args, kw):
    if isinstance(recv, (str, bytes)):
        return recv.isdigit()
    I.ctx.use("T-py:str.isdigit = nonempty and all chars in CPython's isdigit class (table from this interpreter)")
    return pyops.mk_bool(z3.InRe(_s(recv), z3.Plus(re_digit())))


def m_isdecimal(I, recv, args, kw):
    if isinstance(recv, str):
        return recv.isdecimal()
    return pyops.mk_bool(z3.InRe(_s(recv), z3.Plus(re_decimal())))


def m_isascii(I, recv, args, kw):
    if isinstance(recv, (str, bytes)):
        return recv.isascii()
    return pyops.mk_bool(z3.InRe(_s(recv), z3.Star(z3.Range(_chr(0), _chr(127)))))


def m_encode(I, recv, args, kw):
    if isinstance(recv, str):
        return recv.encode(*[a for a in args if isinstance(a, str)])
    # utf-8 encode: an injective function str -> bytes (T-py ENC-INJ); ASCII strings map to themselves
    enc = z3.Function("utf8.encode", z3.StringSort(), z3.StringSort())
    I.ctx.use("T-py:utf-8 encode injective, decode(encode(s)) = s")
    return SBytes(enc(_s(recv)))


def m_decode(I, recv, args, kw):
    if isinstance(recv, bytes):
        try:
            return recv.decode(*[a for a in args if isinstance(a, str)])
        except UnicodeDecodeError:
            raise PyExc("UnicodeDecodeError")
    dec = z3.Function("utf8.decode", z3.StringSort(), z3.StringSort())
    ok = z3.Function("utf8.valid", z3.StringSort(), z3.BoolSort())
    enc = z3.Function("utf8.encode", z3.StringSort(), z3.StringSort())
    b = _s(recv)
    if z3.is_app(b) and b.decl().name() == "utf8.encode":
        return pyops.mk_str(b.arg(0))    # decode(encode(s)) = s
    I.ctx.use("T-py:bytes.decode('utf-8') raises UnicodeDecodeError or returns some str; decode(encode(s)) = s")
    # decode(encode(s)) = s for terms of the form encode(s)
    if not I.ctx.decide(ok(b), "utf8-valid"):
        raise PyExc("UnicodeDecodeError")
    r = dec(b)
    I.ctx.assume(enc(r) == b)
    return SStr(r)


def m_rsplit(I, recv, args, kw):
    sep = I.force(_arg(args, kw, 0, "sep"))
    maxsplit = I.force(_arg(args, kw, 1, "maxsplit", -1))
    if isinstance(recv, str) and isinstance(sep, str):
        return PList(recv.rsplit(sep, maxsplit))
    if not isinstance(sep, str) or maxsplit != 1:
        raise Unsupported("rsplit: only rsplit(<literal>, 1) on symbolic strings")
    c = I.ctx
    s = _s(recv)
    sz = z3.StringVal(sep)
    if not c.decide(z3.Contains(s, sz), "rsplit-has-sep"):
        return PList([recv])
    head, tail = c.fresh_str("rsh"), c.fresh_str("rst")
    c.assume(s == z3.Concat(head, sz, tail))
    c.assume(not_contains(tail, sep))
    c.use("T-py:str.rsplit(sep,1) definitional")
    return PList([pyops.mk_str(head), pyops.mk_str(tail)])


def m_partition(I, recv, args, kw, right=False):
    """s.partition(sep) / s.rpartition(sep): (head, sep, tail) around the first / last occurrence; (s, '', '') / ('', '', s)
    when sep does not occur"""
    sep = I.force(_arg(args, kw, 0, "sep"))
    if isinstance(recv, str) and isinstance(sep, str):
        return tuple(recv.rpartition(sep) if right else recv.partition(sep))
    if not isinstance(sep, str) or not sep:
        raise Unsupported("partition: only a literal separator on symbolic strings")
    c = I.ctx
    s = _s(recv)
    sz = z3.StringVal(sep)
    if not c.decide(z3.Contains(s, sz), "partition-has-sep"):
        return ("", "", recv) if right else (recv, "", "")
    head, tail = c.fresh_str("pth"), c.fresh_str("ptt")
    c.assume(s == z3.Concat(head, sz, tail))
    if len(sep) == 1:
        c.assume(not_contains(tail if right else head, sep))
    else:
        # the chosen occurrence is the last / first one: no occurrence starts later / earlier
        c.assume(z3.Not(z3.Contains(z3.Concat(z3.SubString(sz, 1, len(sep) - 1), tail), sz)) if right
                 else z3.Not(z3.Contains(z3.Concat(head, z3.SubString(sz, 0, len(sep) - 1)), sz)))
    c.use("T-py:str.partition/rpartition definitional")
    return (pyops.mk_str(head), sep, pyops.mk_str(tail))


def m_split(I, recv, args, kw):
    sep = I.force(_arg(args, kw, 0, "sep"))
    maxsplit = I.force(_arg(args, kw, 1, "maxsplit", -1))
    if isinstance(recv, str) and (sep is None or isinstance(sep, str)):
        return PList(recv.split(sep, maxsplit))
    if isinstance(sep, str) and maxsplit == 1:
        c = I.ctx
        s = _s(recv)
        sz = z3.StringVal(sep)
        if not c.decide(z3.Contains(s, sz), "split-has-sep"):
            return PList([recv])
        head, tail = c.fresh_str("sph"), c.fresh_str("spt")
        c.assume(s == z3.Concat(head, sz, tail))
        c.assume(not_contains(head, sep))
        return PList([pyops.mk_str(head), pyops.mk_str(tail)])
    hook = I.reg.builtins.get("__split_symbolic__")
    if hook is None:
        raise Unsupported("str.split on a symbolic string")
    return hook.fn(I, [recv, sep], kw)


def m_replace(I, recv, args, kw):
    old, new = I.force(args[0]), I.force(args[1])
    if _concrete_strs(recv, old, new):
        return recv.replace(old, new)
    if not (isinstance(old, str) and isinstance(new, str)):
        raise Unsupported("replace with symbolic pattern")
    c = I.ctx
    s = _s(recv)
    if not c.decide(z3.Contains(s, z3.StringVal(old)), "replace-has"):
        return recv
    if len(old) == 1 and len(new) == 1:
        r = c.fresh_str("rpl")
        c.assume(z3.Length(r) == z3.Length(s))
        c.assume(not_contains(r, old) if old != new else r == s)
        c.use("T-py:str.replace(c1,c2) over-approximated: same length, no c1 left")
        return SStr(r)
    r = c.fresh_str("rpl")
    c.use("T-py:str.replace over-approximated by an arbitrary string")
    return SStr(r)


def m_join(I, recv, args, kw):
    items = I.iter_concrete(args[0])
    if isinstance(recv, str) and all(isinstance(x, str) for x in items):
        return recv.join(items)
    parts = []
    for i, x in enumerate(items):
        if i:
            parts.append(_s(recv))
        parts.append(_s(x))
    if not parts:
        return ""
    return pyops.mk_str(z3.Concat(*parts) if len(parts) > 1 else parts[0])


def m_removeprefix(I, recv, args, kw):
    p = I.force(args[0])
    if _concrete_strs(recv, p):
        return recv.removeprefix(p)
    s, pz = _s(recv), _s(p)
    return pyops.mk_str(z3.If(z3.PrefixOf(pz, s), z3.SubString(s, z3.Length(pz), z3.Length(s) - z3.Length(pz)), s))


def m_removesuffix(I, recv, args, kw):
    p = I.force(args[0])
    if _concrete_strs(recv, p):
        return recv.removesuffix(p)
    s, pz = _s(recv), _s(p)
    return pyops.mk_str(z3.If(z3.And(z3.SuffixOf(pz, s), z3.Length(pz) > 0), z3.SubString(s, 0, z3.Length(s) - z3.Length(pz)), s))


def m_str_format(I, recv, args, kw):
    return SStr(I.ctx.fresh_str("fmt"))


def m_find(I, recv, args, kw):
    p = I.force(args[0])
    if _concrete_strs(recv, p):
        return recv.find(p)
    return pyops.mk_int(z3.IndexOf(_s(recv), _s(p), 0))


def m_timestamp_like(I, recv, args, kw):
    raise Unsupported("timestamp")


# ----------------------------------------------------------------------------------- list methods
def m_list_append(I, recv, args, kw):
    if isinstance(recv, PList):
        recv.items.append(args[0])
        return None
    if isinstance(recv, SSeq):
        v = I.force(args[0])
        recv.z = z3.Concat(recv.z, z3.Unit(to_z3(v)))
        return None
    raise Unsupported("append")


def m_list_extend(I, recv, args, kw):
    if isinstance(recv, PList):
        v = I.force(args[0])
        if isinstance(v, SSeq):
            raise Unsupported("extend a known-length list with an unknown-length one")
        recv.items.extend(I.iter_concrete(v))
        return None
    if isinstance(recv, SSeq):
        v = I.force(args[0])
        if isinstance(v, SSeq):
            recv.z = z3.Concat(recv.z, v.z)
        else:
            for x in I.iter_concrete(v):
                recv.z = z3.Concat(recv.z, z3.Unit(to_z3(x)))
        return None
    raise Unsupported("extend")


def m_list_insert(I, recv, args, kw):
    if isinstance(recv, PList) and isinstance(args[0], int):
        recv.items.insert(args[0], args[1])
        return None
    raise Unsupported("insert")


def m_list_pop(I, recv, args, kw):
    if isinstance(recv, PList):
        try:
            return recv.items.pop(*[a for a in args])
        except IndexError:
            raise PyExc("IndexError")
    raise Unsupported("pop")


def m_list_copy(I, recv, args, kw):
    if isinstance(recv, PList):
        return PList(recv.items)
    return SSeq(recv.kind, recv.z)


# ----------------------------------------------------------------------------------- dict methods
def m_dict_get(I, recv, args, kw):
    key = I.force(args[0])
    default = args[1] if len(args) > 1 else kw.get("default")
    if isinstance(recv, PDict):
        for k, v in getattr(recv, "sym_items", []):
            e = pyops.py_eq(key, k)
            if (e if isinstance(e, bool) else I.ctx.decide(e, "dict-get-symkey")):
                return v
        if is_concrete(key):
            try:
                return recv.d.get(key, default)
            except TypeError:
                raise PyExc("TypeError")
        for k, v in recv.d.items():
            e = pyops.py_eq(key, k)
            if isinstance(e, bool):
                if e:
                    return v
                continue
            if I.ctx.decide(e, "dict-get"):
                return v
        return default
    if isinstance(recv, SMapZ):
        if key is None:
            return default
        kz = to_z3(key)
        if I.ctx.decide(z3.Select(recv.has, kz), "map-get"):
            return I.map_value(recv, kz)
        return default
    raise Unsupported("dict.get")


def m_dict_items(I, recv, args, kw):
    if isinstance(recv, PDict):
        return tuple((k, v) for k, v in recv.d.items()) + tuple(getattr(recv, "sym_items", []) or [])
    if isinstance(recv, SMapZ):
        # a collection of unknown size: an arbitrary element is a present key with its value (iteration order abstracted;
        # distinctness of the visited keys is NOT modelled - obligations over such loops must not depend on it)
        from ..values import wrap, usort as _us

        def mk(I2, m=recv, has=recv.has, val=recv.val):
            ks = has.sort().domain()
            k = I2.ctx.fresh("key", ks)
            I2.ctx.assume(z3.Select(has, k))
            if getattr(m, "key_assume", None) is not None:
                I2.ctx.assume(m.key_assume(k))      # harness-stated precondition on every key of the map
            it.fields["last_key"] = k
            return (wrap(m.kkind, k), wrap(m.vkind, z3.Select(val, k)))
        it = TheoryObj("symiter", fields={"mk": mk, "of_map": recv})
        return it
    raise Unsupported("items() of a symbolic map")


def m_dict_keys(I, recv, args, kw):
    if isinstance(recv, PDict):
        return tuple(recv.d.keys()) + tuple(k for k, _v in getattr(recv, "sym_items", []) or [])
    raise Unsupported("keys() of a symbolic map")


def m_dict_values(I, recv, args, kw):
    if isinstance(recv, PDict):
        return tuple(recv.d.values())
    raise Unsupported("values() of a symbolic map")


def m_dict_update(I, recv, args, kw):
    if isinstance(recv, PDict):
        v = I.force(args[0]) if args else PDict()
        if isinstance(v, PDict):
            recv.d.update(v.d)
        else:
            for k, val in I.iter_concrete(v):
                recv.d[k] = val
        recv.d.update(kw)
        return None
    raise Unsupported("dict.update")


def m_dict_copy(I, recv, args, kw):
    if isinstance(recv, PDict):
        return PDict(recv.d)
    raise Unsupported("dict.copy")


def m_dict_pop(I, recv, args, kw):
    if isinstance(recv, PDict) and is_concrete(args[0]):
        if args[0] in recv.d:
            return recv.d.pop(args[0])
        if len(args) > 1:
            return args[1]
        raise PyExc("KeyError")
    raise Unsupported("dict.pop")


def m_dict_setdefault(I, recv, args, kw):
    if isinstance(recv, PDict) and is_concrete(args[0]):
        return recv.d.setdefault(args[0], args[1] if len(args) > 1 else None)
    raise Unsupported("dict.setdefault")


# ----------------------------------------------------------------------------------- set methods
def m_set_add(I, recv, args, kw):
    v = I.force(args[0])
    if isinstance(recv, PSet):
        recv.items.append(v)
        return None
    if isinstance(recv, SSetZ):
        recv.z = z3.SetAdd(recv.z, to_z3(v))
        return None
    raise Unsupported("set.add")


def m_set_update(I, recv, args, kw):
    v = I.force(args[0])
    if isinstance(recv, PSet):
        recv.items.extend(I.iter_concrete(v))
        return None
    if isinstance(recv, SSetZ):
        if isinstance(v, SSetZ):
            recv.z = z3.SetUnion(recv.z, v.z)
        else:
            for x in I.iter_concrete(v):
                recv.z = z3.SetAdd(recv.z, to_z3(I.force(x)))
        return None
    raise Unsupported("set.update")


def m_set_union(I, recv, args, kw):
    r = recv
    for a in args:
        r = pyops.py_binop("|", r, I.force(a), I.ctx)
    return r


def m_set_discard(I, recv, args, kw):
    v = I.force(args[0])
    if isinstance(recv, SSetZ):
        recv.z = z3.SetDel(recv.z, to_z3(v))
        return None
    raise Unsupported("set.discard")


def m_tuple_index(I, recv, args, kw):
    raise Unsupported("tuple.index")


def _symdict_get(I, o, a, k):
    store = o.fields.setdefault("cells", {})
    key = I.force(a[0])
    kk = key if is_concrete(key) else str(to_z3(key))
    if kk not in store:
        from ..values import usort
        store[kk] = SOpt(I.ctx.fresh_bool("sd_none"), SOpaque("pyobject", I.ctx.fresh("sd_val", usort("pyobject"))))
    v = store[kk]
    if len(a) > 1 and a[1] is not None:
        return v.val if not I.ctx.decide(v.isnone, "symdict-missing") else a[1]
    return v


def _opaque_eq(I, o, a, k):
    other = a[0]
    if isinstance(other, SOpaque) and other.sort == o.sort:
        return SBool(o.z == other.z)
    return SBool(I.ctx.fresh_bool("opaque_eq"))   # equality with a value of another kind: unknown


def _symiter_append(I, o, a, k):
    """append to a list of unknown size: remembered; an arbitrary element of the list is then an old element or an appended one"""
    o.fields.setdefault("appended", []).append(a[0])
    base_mk = o.fields.get("base_mk") or o.fields["mk"]
    o.fields["base_mk"] = base_mk
    ne = o.fields.get("nonempty")
    o.fields["nonempty"] = z3.BoolVal(True)
    o.fields.pop("len", None)

    def mk(I2):
        items = o.fields["appended"]
        k2 = I2.ctx.choose(len(items) + 1, "symiter-elem-old-or-appended")
        if k2 == 0:
            if ne is not None:
                I2.ctx.assume(ne)
            return base_mk(I2)
        return items[k2 - 1]
    o.fields["mk"] = mk
    return None


def _symiter_delitem(I, o, a, k):
    """del lst[i] on a list of unknown size: afterwards it holds a subset of its former elements (emptiness unknown)"""
    o.fields["nonempty"] = I.ctx.fresh_bool("nonempty_after_del")
    o.fields.pop("len", None)
    o.fields["removed_some"] = True
    return None


def install(reg):
    # theory 'stale': a value of unknown shape left in an object by an earlier call (see Interp.init_default / reg.stale_state)
    def _stale(label="stale"):
        return TheoryObj("stale", label=label, fields={"__overloads__": True})
    reg.theory_methods[("stale", "__getitem__")] = lambda I, o, a, k: _stale(f"{o.label}[..]")
    def _stale_get(I, o, a, k):
        vk = o.fields.get("vkind")
        if vk is None:
            return _stale(f"{o.label}.get(..)")
        # a dict with values of a known scalar type left by an earlier call: the key may be absent, else any value of that type
        if I.ctx.flip("stale-dict-key-absent"):
            return a[1] if len(a) > 1 else None
        c = I.ctx
        return {"str": lambda: SStr(c.fresh_str("stale_val")), "int": lambda: SInt(c.fresh_int("stale_val")), "bool": lambda: SBool(c.fresh_bool("stale_val"))}[vk]()
    reg.theory_methods[("stale", "get")] = _stale_get
    reg.theory_methods[("stale", "__setitem__")] = lambda I, o, a, k: None
    reg.theory_methods[("stale", "__eq__")] = lambda I, o, a, k: SBool(I.ctx.fresh_bool("stale_eq"))
    reg.theory_methods[("stale", "__ne__")] = lambda I, o, a, k: SBool(I.ctx.fresh_bool("stale_ne"))
    reg.theory_methods[("stale", "__contains__")] = lambda I, o, a, k: SBool(I.ctx.fresh_bool("stale_in"))
    reg.theory_methods[("stale", "__len__")] = lambda I, o, a, k: SInt(I.ctx.fresh_int("stale_len"))
    reg.theory_methods[("symiter", "__delitem__")] = _symiter_delitem
    reg.theory_methods[("symiter", "append")] = _symiter_append

    def _symiter_extend(I, o, a, k):
        """l.extend(xs) on a list of unknown size: an arbitrary element of xs is remembered as appended (xs of unknown size:
        evaluated on one arbitrary element, if it can be non-empty)"""
        xs = I.force(a[0])
        if isinstance(xs, PList):
            for x in xs.items:
                _symiter_append(I, o, [x], {})
            return None
        if isinstance(xs, TheoryObj) and xs.theory == "symgen":
            src = xs.fields["iter"]
            if I.ctx.decide(I.symiter_nonempty(src), "extend-source-nonempty"):
                from ..engine import _MISSING
                v = I.eval_gen_element(xs, src.fields["mk"](I))
                if v is not _MISSING:
                    _symiter_append(I, o, [v], {})
            return None
        if isinstance(xs, TheoryObj) and xs.theory == "symiter":
            if I.ctx.decide(I.symiter_nonempty(xs), "extend-source-nonempty"):
                _symiter_append(I, o, [xs.fields["mk"](I)], {})
            return None
        raise Unsupported("extend of a list of unknown size with this kind of iterable")
    reg.theory_methods[("symiter", "extend")] = _symiter_extend

    def _symiter_clear(I, o, a, k):
        o.fields["nonempty"] = z3.BoolVal(False)
        o.fields["len"] = z3.IntVal(0)
        o.fields["removed_some"] = True
        return None
    reg.theory_methods[("symiter", "clear")] = _symiter_clear
    reg.theory_methods[("symiter", "remove")] = _symiter_delitem
    reg.theory_methods[("pyobject", "__eq__")] = _opaque_eq
    reg.theory_methods[("pyobject", "__ne__")] = lambda I, o, a, k: SBool(z3.Not(_opaque_eq(I, o, a, k).z))
    reg.theory_methods[("symdict", "get")] = _symdict_get
    reg.theory_methods[("symdict", "items")] = lambda I, o, a, k: TheoryObj("symiter", fields={"mk": lambda I2: (SOpaque("pyobject", I2.ctx.fresh("k", __import__("pyvc.values", fromlist=["usort"]).usort("pyobject"))), SOpaque("pyobject", I2.ctx.fresh("v", __import__("pyvc.values", fromlist=["usort"]).usort("pyobject"))))})
    B = reg.builtins
    for name, fn in [("len", b_len), ("min", b_min), ("max", b_max), ("int", b_int), ("float", b_float),
                     ("str", b_str), ("bool", b_bool), ("bytes", b_bytes), ("isinstance", b_isinstance),
                     ("hasattr", b_hasattr), ("getattr", b_getattr), ("list", b_list), ("tuple", b_tuple),
                     ("set", b_set), ("frozenset", b_frozenset), ("dict", b_dict), ("range", b_range),
                     ("enumerate", b_enumerate), ("zip", b_zip), ("reversed", b_reversed), ("any", b_any),
                     ("all", b_all), ("next", b_next), ("sum", b_sum), ("sorted", b_sorted), ("abs", b_abs),
                     ("id", b_id), ("repr", b_repr), ("type", b_type), ("callable", b_callable),
                     ("iter", b_iter), ("print", b_print), ("super", b_super)]:
        B[name] = Builtin(name, fn)
    M = reg.methods
    for kind in ("str", "bytes"):
        M[(kind, "startswith")] = m_startswith
        M[(kind, "endswith")] = m_endswith
        M[(kind, "lstrip")] = m_lstrip
        M[(kind, "rstrip")] = m_rstrip
        M[(kind, "strip")] = m_strip
        M[(kind, "isdigit")] = m_isdigit
        M[(kind, "isascii")] = m_isascii
        M[(kind, "replace")] = m_replace
        M[(kind, "rsplit")] = m_rsplit
        M[(kind, "split")] = m_split
        M[(kind, "partition")] = m_partition
        M[(kind, "rpartition")] = lambda I, r, a, k: m_partition(I, r, a, k, right=True)
        M[(kind, "find")] = m_find
    M[("str", "lower")] = m_lower
    M[("str", "upper")] = m_upper
    M[("str", "isdecimal")] = m_isdecimal
    M[("str", "encode")] = m_encode
    M[("bytes", "decode")] = m_decode
    M[("str", "join")] = m_join
    M[("str", "removeprefix")] = m_removeprefix
    M[("str", "removesuffix")] = m_removesuffix
    M[("str", "format")] = m_str_format
    M[("list", "append")] = m_list_append
    M[("list", "extend")] = m_list_extend
    M[("list", "insert")] = m_list_insert
    M[("list", "pop")] = m_list_pop
    M[("list", "copy")] = m_list_copy
    M[("dict", "get")] = m_dict_get
    M[("dict", "items")] = m_dict_items
    M[("dict", "keys")] = m_dict_keys
    M[("dict", "values")] = m_dict_values
    M[("dict", "update")] = m_dict_update
    M[("dict", "copy")] = m_dict_copy
    M[("dict", "pop")] = m_dict_pop
    M[("dict", "setdefault")] = m_dict_setdefault
    M[("set", "add")] = m_set_add
    M[("set", "update")] = m_set_update
    M[("set", "union")] = m_set_union
    M[("set", "discard")] = m_set_discard
    # library constants
    C = reg.modconsts
    C["io.SEEK_SET"] = 0
    C["io.SEEK_CUR"] = 1
    C["io.SEEK_END"] = 2
    C["os.pardir"] = ".."
    C["os.sep"] = "/"
    C["os.O_RDONLY"] = 0
    C["os.O_CREAT"] = 64
    C["os.O_RDWR"] = 2
    C["os.O_EXCL"] = 128
    C["os.O_WRONLY"] = 1
    C["errno.EEXIST"] = 17
    C["typing.TYPE_CHECKING"] = False
