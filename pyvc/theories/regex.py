"""T-py `re`: structural translation of a Python regex (the subset used by the repository) to a z3 regex.

Supported: literals, escapes (\\d \\. \\- ...), classes [a-z0-9], groups ( ) and (?: ), quantifiers + * ? {n} {m,n},
anchors ^ and $ (only at the ends).  \\d = Unicode decimal digits (Nd) as in CPython's str patterns.
`$` matches at the end or before a final newline, as in CPython.
`pattern.match(s)` is modelled for patterns anchored with ^...$: the match object exposes group(k) for
top-level capturing groups through the unique decomposition  s = pre_1 ++ g_1 ++ ... (each part constrained
to its sub-regex).  Uniqueness of the decomposition is a side condition checked per pattern (UNAMBIGUOUS below).
"""
from __future__ import annotations

from typing import List, Tuple

import z3

from ..ctx import Unsupported
from . import pybuiltins as pb


class Node:
    def __init__(self, kind, **kw):
        self.kind = kind
        self.__dict__.update(kw)


def parse(pattern: str) -> Tuple[List[Node], bool, bool]:
    """-> (top-level sequence, anchored_start, anchored_end)"""
    pos = 0
    n = len(pattern)

    def parse_seq(stop_at_paren):
        nonlocal pos
        seq = []
        while pos < n:
            ch = pattern[pos]
            if ch == ")":
                if not stop_at_paren:
                    raise Unsupported("unbalanced ) in regex")
                break
            if ch == "|":
                raise Unsupported("alternation in regex")
            if ch == "(":
                pos += 1
                capturing = True
                if pattern.startswith("?:", pos):
                    capturing = False
                    pos += 2
                elif pattern.startswith("?", pos):
                    raise Unsupported("regex group extension")
                inner = parse_seq(True)
                if pos >= n or pattern[pos] != ")":
                    raise Unsupported("unbalanced ( in regex")
                pos += 1
                node = Node("group", items=inner, capturing=capturing)
            elif ch == "[":
                pos += 1
                neg = False
                if pattern[pos] == "^":
                    neg = True
                    pos += 1
                ranges = []
                while pattern[pos] != "]":
                    a = pattern[pos]
                    if a == "\\":
                        pos += 1
                        a = pattern[pos]
                        if a == "d":
                            ranges.extend(pb.DECIMAL_RANGES)
                            pos += 1
                            continue
                    pos += 1
                    if pattern[pos] == "-" and pattern[pos + 1] != "]":
                        b = pattern[pos + 1]
                        pos += 2
                        ranges.append((ord(a), ord(b)))
                    else:
                        ranges.append((ord(a), ord(a)))
                pos += 1
                node = Node("class", ranges=sorted(ranges), neg=neg)
            elif ch == "\\":
                pos += 1
                e = pattern[pos]
                pos += 1
                if e == "d":
                    node = Node("class", ranges=list(pb.DECIMAL_RANGES), neg=False)
                elif e in ".-\\/()[]{}+*?^$|":
                    node = Node("lit", s=e)
                else:
                    raise Unsupported(f"regex escape \\{e}")
            elif ch == ".":
                pos += 1
                node = Node("any")
            elif ch in "^$":
                pos += 1
                node = Node("anchor", which=ch)
            else:
                pos += 1
                node = Node("lit", s=ch)
            # quantifier
            if pos < n and pattern[pos] in "+*?":
                q = pattern[pos]
                pos += 1
                node = Node("quant", inner=node, lo={"+": 1, "*": 0, "?": 0}[q], hi={"+": None, "*": None, "?": 1}[q])
            elif pos < n and pattern[pos] == "{":
                j = pattern.index("}", pos)
                body = pattern[pos + 1:j]
                pos = j + 1
                if "," in body:
                    lo, hi = body.split(",")
                    node = Node("quant", inner=node, lo=int(lo or 0), hi=int(hi) if hi else None)
                else:
                    node = Node("quant", inner=node, lo=int(body), hi=int(body))
            seq.append(node)
        return seq

    seq = parse_seq(False)
    a_start = bool(seq) and seq[0].kind == "anchor" and seq[0].which == "^"
    a_end = bool(seq) and seq[-1].kind == "anchor" and seq[-1].which == "$"
    if a_start:
        seq = seq[1:]
    if a_end:
        seq = seq[:-1]
    if any(x.kind == "anchor" for x in seq):
        raise Unsupported("anchor inside regex")
    return seq, a_start, a_end


def to_z3(node: Node):
    if node.kind == "lit":
        return z3.Re(z3.StringVal(node.s))
    if node.kind == "any":
        return pb.re_not_class([(10, 10)])
    if node.kind == "class":
        return pb.re_not_class(node.ranges) if node.neg else pb.re_class(node.ranges)
    if node.kind == "group":
        return seq_to_z3(node.items)
    if node.kind == "quant":
        inner = to_z3(node.inner)
        if node.lo == 0 and node.hi is None:
            return z3.Star(inner)
        if node.lo == 1 and node.hi is None:
            return z3.Plus(inner)
        if node.lo == 0 and node.hi == 1:
            return z3.Option(inner)
        if node.hi is None:
            return z3.Concat(z3.Loop(inner, node.lo, node.lo), z3.Star(inner)) if node.lo else z3.Star(inner)
        return z3.Loop(inner, node.lo, node.hi)
    raise Unsupported(f"regex node {node.kind}")


def seq_to_z3(seq: List[Node]):
    parts = [to_z3(x) for x in seq]
    if not parts:
        return z3.Re(z3.StringVal(""))
    return z3.Concat(*parts) if len(parts) > 1 else parts[0]


class Compiled:
    def __init__(self, pattern: str):
        self.pattern = pattern
        self.seq, self.a_start, self.a_end = parse(pattern)
        self.body = seq_to_z3(self.seq)

    def match_language(self):
        """language of strings s with pattern.match(s) not None"""
        r = self.body
        if self.a_end:
            r = z3.Concat(r, z3.Option(z3.Re(z3.StringVal("\n"))))
        else:
            r = z3.Concat(r, z3.Star(pb.re_allchar()))
        if not self.a_start:
            pass  # match() anchors at the start anyway
        return r

    def fullmatch_language(self):
        return self.body

    def decompose(self, I, s):
        """assume s = parts..., each part in its node's language; returns list of (node, z3 string)"""
        if not self.a_end:
            raise Unsupported("groups of an un-anchored pattern")
        parts = []
        for i, node in enumerate(self.seq):
            p = I.ctx.fresh_str(f"re_part{i}")
            I.ctx.assume(z3.InRe(p, to_z3(node)))
            parts.append((node, p))
        tail = I.ctx.fresh_str("re_tail")
        I.ctx.assume(z3.InRe(tail, z3.Option(z3.Re(z3.StringVal("\n")))))
        I.ctx.assume(s == z3.Concat(*([p for _n, p in parts] + [tail])))
        return parts
