"""Solver back ends: z3 (python API) first, cvc5 (python API in a subprocess, SMT-LIB text) for z3's unknowns."""
from __future__ import annotations

import os
import subprocess
import sys
import tempfile
import time

import z3

HERE = os.path.dirname(os.path.abspath(__file__))

STATS = {"z3_calls": 0, "z3_time": 0.0, "cvc5_calls": 0, "cvc5_time": 0.0}


def z3_check(assertions, timeout_ms, want_model=True):
    s = z3.Solver()
    s.set("timeout", int(timeout_ms))
    s.set("random_seed", 1)
    for a in assertions:
        s.add(a)
    t0 = time.time()
    try:
        r = s.check()
    except z3.Z3Exception as e:  # pragma: no cover
        STATS["z3_calls"] += 1
        STATS["z3_time"] += time.time() - t0
        return "unknown", None, f"z3 exception: {e}", time.time() - t0, s
    dt = time.time() - t0
    STATS["z3_calls"] += 1
    STATS["z3_time"] += dt
    if r == z3.unsat:
        return "unsat", None, "", dt, s
    if r == z3.sat:
        return "sat", (s.model() if want_model else None), "", dt, s
    return "unknown", None, s.reason_unknown(), dt, s


def to_smt2(assertions, logic=None):
    s = z3.Solver()
    for a in assertions:
        s.add(a)
    txt = s.to_smt2()
    # z3 prints (check-sat) at the end; cvc5 wants a logic
    return "(set-logic ALL)\n" + txt


def cvc5_check(assertions, timeout_ms, models=False):
    """Run cvc5 (python package, separate process) on the SMT-LIB rendering. Returns (verdict, text, secs)."""
    t0 = time.time()
    try:
        smt = to_smt2(assertions)
    except Exception as e:  # pragma: no cover
        return "unknown", f"smt2 export failed: {e}", 0.0
    fd, path = tempfile.mkstemp(suffix=".smt2", prefix="pyvc_")
    try:
        with os.fdopen(fd, "w") as f:
            f.write(smt)
        cmd = [sys.executable, os.path.join(HERE, "cvc5_run.py"), path, str(int(timeout_ms))]
        if models:
            cmd.append("--fmf")
        try:
            out = subprocess.run(cmd, capture_output=True, text=True, timeout=timeout_ms / 1000.0 + 10)
            txt = (out.stdout or "").strip()
        except subprocess.TimeoutExpired:
            txt = "unknown (timeout)"
    finally:
        try:
            os.remove(path)
        except OSError:
            pass
    dt = time.time() - t0
    STATS["cvc5_calls"] += 1
    STATS["cvc5_time"] += dt
    first = txt.splitlines()[0].strip() if txt else "unknown"
    if first in ("unsat", "sat"):
        return first, txt, dt
    return "unknown", txt, dt


def cvc5_inproc(assertions, timeout_ms, values=None):
    """cvc5 python API in this process on the SMT-LIB rendering -> ('sat'|'unsat'|'unknown', secs[, model dict]).
    values: optional {name: z3 term}; when sat, their values are fetched with (get-value) and returned as text."""
    t0 = time.time()
    model = {}
    try:
        import cvc5
        smt = to_smt2(assertions)
        slv = cvc5.Solver()
        slv.setOption("strings-exp", "true")
        slv.setOption("arrays-exp", "true")      # constant arrays (empty sets) appear in most path conditions
        slv.setOption("produce-models", "true")
        slv.setOption("tlimit-per", str(int(timeout_ms)))
        parser = cvc5.InputParser(slv)
        parser.setStringInput(cvc5.InputLanguage.SMT_LIB_2_6, smt, "q")
        sm = parser.getSymbolManager()
        result = "unknown"
        while True:
            cmd = parser.nextCommand()
            if cmd.isNull():
                break
            out = str(cmd.invoke(slv, sm)).strip()
            if out in ("sat", "unsat"):
                result = out
                break
            if out.startswith("unknown"):
                break
        if result == "sat" and values:
            for name, term in values.items():
                try:
                    p2 = cvc5.InputParser(slv, sm)
                    p2.setStringInput(cvc5.InputLanguage.SMT_LIB_2_6, f"(get-value ({term.sexpr()}))", "gv")
                    cmd = p2.nextCommand()
                    txt = str(cmd.invoke(slv, sm)).strip()
                    model[name] = _parse_get_value(txt)
                except Exception as e:
                    model[name] = f"<unavailable: {e}>"
    except Exception:
        result = "unknown"
    dt = time.time() - t0
    STATS["cvc5_calls"] += 1
    STATS["cvc5_time"] += dt
    if values is not None:
        return result, dt, model
    return result, dt


def _parse_get_value(txt):
    # "((term value))" -> python-ish value
    t = txt.strip()
    if t.startswith("((") and t.endswith("))"):
        inner = t[2:-2]
        # value is the last s-expression
        depth = 0
        for i in range(len(inner) - 1, -1, -1):
            ch = inner[i]
            if ch == ")":
                depth += 1
            elif ch == "(":
                depth -= 1
            if depth == 0 and (ch == " " or ch == "(") and i < len(inner) - 1:
                val = inner[i:].strip() if ch == "(" else inner[i + 1:].strip()
                if inner.rstrip().endswith('"'):
                    # string literal: take from the first quote of the value
                    q = inner.rfind(' "')
                    val = inner[q + 1:]
                break
        else:
            val = inner
        if val.startswith('"') and val.endswith('"'):
            return val[1:-1].replace('""', '"')
        if val in ("true", "false"):
            return val == "true"
        if val.startswith("(- ") and val.endswith(")"):
            try:
                return -int(val[3:-1])
            except ValueError:
                return val
        try:
            return int(val)
        except ValueError:
            return val
    return t


_STREAK = {"z3_unknown": 0}
_STRCACHE = {}


def _has_strings(assertions) -> bool:
    """does any assertion mention the string / regex theory? (cached per AST id)"""
    for a in assertions:
        try:
            k = a.get_id()
        except Exception:
            continue
        r = _STRCACHE.get(k)
        if r is None:
            t = a.sexpr()
            r = ("str." in t) or ("String" in t) or ("re." in t) or ("seq." in t)
            _STRCACHE[k] = r
        if r:
            return True
    return False


def quick_sat(assertions, timeout_ms):
    """feasibility: z3 with a short budget, then cvc5 in-process (cvc5 first once z3 keeps giving up: string-heavy
    units). -> 'sat' | 'unsat' | 'unknown'"""
    if _STREAK["z3_unknown"] >= 3 or _has_strings(assertions):
        # string-heavy path conditions: z3's short budget is usually wasted on them, cvc5 answers in milliseconds
        # feasibility only prunes: 'unknown' means "explore the branch".  cvc5 refutes infeasible string branches in ~0.1 s or not
        # at all, so a sub-second budget loses nothing but waiting
        v2, _ = cvc5_inproc(assertions, min(timeout_ms, 700))
        if v2 != "unknown":
            return v2
        v, _m, _w, _dt, _s = z3_check(assertions, min(timeout_ms, 300), want_model=False)
        if v != "unknown":
            _STREAK["z3_unknown"] = 0
        return v
    v, _m, _w, _dt, _s = z3_check(assertions, min(timeout_ms, 400), want_model=False)
    if v != "unknown":
        _STREAK["z3_unknown"] = 0
        return v
    _STREAK["z3_unknown"] += 1
    v2, _ = cvc5_inproc(assertions, timeout_ms)
    return v2


def decide(assertions, timeout_ms, cvc5_timeout_ms=None, values=None):
    """-> (verdict, model, backend, seconds, note); model is a z3 ModelRef or (from cvc5) a dict name -> value"""
    # staged: short z3, then cvc5 in-process (strings), then full z3, then cvc5 subprocess; for string-heavy formulas the short
    # z3 stage is skipped down to 300 ms (it almost never answers there, cvc5 usually does)
    v, m, why, dt, _ = z3_check(assertions, min(300 if _has_strings(assertions) else 2000, timeout_ms))
    if v != "unknown":
        return v, m, "z3", dt, ""
    vq, dtq, cmq = cvc5_inproc(assertions, min(5000, timeout_ms), values=values or {})
    if vq == "unsat":
        return "unsat", None, "cvc5", dt + dtq, f"z3: {why}"
    if vq == "sat":
        return "sat", cmq, "cvc5", dt + dtq, "model from cvc5"
    v, m, why, dt1, _ = z3_check(assertions, timeout_ms)
    dt += dtq + dt1
    if v != "unknown":
        return v, m, "z3", dt, ""
    if cvc5_timeout_ms is None:
        cvc5_timeout_ms = timeout_ms
    v2, dt2, cm = cvc5_inproc(assertions, cvc5_timeout_ms, values=values or {})
    if v2 == "unsat":
        return "unsat", None, "cvc5", dt + dt2, f"z3: {why}"
    if v2 == "sat":
        return "sat", cm, "cvc5", dt + dt2, "model from cvc5"
    return "unknown", None, "z3+cvc5", dt + dt2, f"z3: {why}; cvc5: unknown"
