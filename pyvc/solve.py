"""Solver back ends: z3 (python API) first, cvc5 (python API in a subprocess, SMT-LIB text) for z3's unknowns."""
from __future__ import annotations

import os
import subprocess
import sys
import tempfile
import time

import z3

HERE = os.path.dirname(os.path.abspath(__file__))

STATS = {"z3_calls": 0, "z3_time": 0.0, "cvc5_calls": 0, "cvc5_time": 0.0}


def z3_check(assertions, timeout_ms, want_model=True):
    s = z3.Solver()
    s.set("timeout", int(timeout_ms))
    s.set("random_seed", 1)
    for a in assertions:
        s.add(a)
    t0 = time.time()
    try:
        r = s.check()
    except z3.Z3Exception as e:  # pragma: no cover
        STATS["z3_calls"] += 1
        STATS["z3_time"] += time.time() - t0
        return "unknown", None, f"z3 exception: {e}", time.time() - t0, s
    dt = time.time() - t0
    STATS["z3_calls"] += 1
    STATS["z3_time"] += dt
    if r == z3.unsat:
        return "unsat", None, "", dt, s
    if r == z3.sat:
        return "sat", (s.model() if want_model else None), "", dt, s
    return "unknown", None, s.reason_unknown(), dt, s


def to_smt2(assertions, logic=None):
    s = z3.Solver()
    for a in assertions:
        s.add(a)
    txt = s.to_smt2()
    # z3 prints (check-sat) at the end; cvc5 wants a logic
    return "(set-logic ALL)\n" + txt


def cvc5_check(assertions, timeout_ms, models=False):
    """Run cvc5 (python package, separate process) on the SMT-LIB rendering. Returns (verdict, text, secs)."""
    t0 = time.time()
    try:
        smt = to_smt2(assertions)
    except Exception as e:  # pragma: no cover
        return "unknown", f"smt2 export failed: {e}", 0.0
    fd, path = tempfile.mkstemp(suffix=".smt2", prefix="pyvc_")
    try:
        with os.fdopen(fd, "w") as f:
            f.write(smt)
        cmd = [sys.executable, os.path.join(HERE, "cvc5_run.py"), path, str(int(timeout_ms))]
        if models:
            cmd.append("--fmf")
        try:
            out = subprocess.run(cmd, capture_output=True, text=True, timeout=timeout_ms / 1000.0 + 10)
            txt = (out.stdout or "").strip()
        except subprocess.TimeoutExpired:
            txt = "unknown (timeout)"
    finally:
        try:
            os.remove(path)
        except OSError:
            pass
    dt = time.time() - t0
    STATS["cvc5_calls"] += 1
    STATS["cvc5_time"] += dt
    first = txt.splitlines()[0].strip() if txt else "unknown"
    if first in ("unsat", "sat"):
        return first, txt, dt
    return "unknown", txt, dt


def decide(assertions, timeout_ms, cvc5_timeout_ms=None):
    """-> (verdict, model, backend, seconds, note)"""
    v, m, why, dt, _ = z3_check(assertions, timeout_ms)
    if v != "unknown":
        return v, m, "z3", dt, ""
    if cvc5_timeout_ms is None:
        cvc5_timeout_ms = timeout_ms
    v2, txt, dt2 = cvc5_check(assertions, cvc5_timeout_ms)
    if v2 == "unsat":
        return "unsat", None, "cvc5", dt + dt2, f"z3: {why}"
    if v2 == "sat":
        # cvc5 says sat: try to obtain a z3 model with a longer budget for replay
        v3, m3, why3, dt3, _ = z3_check(assertions, timeout_ms * 3)
        if v3 == "sat":
            return "sat", m3, "cvc5+z3", dt + dt2 + dt3, ""
        return "sat", None, "cvc5", dt + dt2 + dt3, "no z3 model"
    return "unknown", None, "z3+cvc5", dt + dt2, f"z3: {why}; cvc5: {txt[:200]}"
