"""Append-only accumulators (proof rule MAP-ACC).

For a loop  `for x in S: body`  whose only use of an accumulator A (list or set created by the
function) is `A.append(e)` / `A.add(e)`:
  * if every element added in an *arbitrary* iteration satisfies Q, every element of the final A
    satisfies Q (elements present on entry are checked by the entry obligation);
  * if an arbitrary iteration over element x adds exactly g(x), the final A is A0 ++ concat g(x).
Both are inductions over the iterations; the induction step is the obligation generated from the real
loop body.  The accumulator object rejects every other operation (Unsupported), so the side
condition "body does not read A" is enforced mechanically.
"""
from __future__ import annotations

from .values import TheoryObj


def new_acc(label="acc", on_add=None, initial=None):
    return TheoryObj("acc", label=label, fields={"added": [], "on_add": on_add, "initial": list(initial or [])})


def reset(acc):
    acc.fields["added"] = []
    acc.fields.pop("len_z", None)


def _add(I, obj, args, kwargs):
    x = args[0]
    obj.fields.pop("len_z", None)        # the length changes with every append
    obj.fields["added"].append(x)
    cb = obj.fields.get("on_add")
    if cb is not None:
        cb(I, x)
    return None


def _setitem(I, obj, args, kwargs):
    return _add(I, obj, [(args[0], args[1])], {})


def _len(I, obj, args, kwargs):
    import z3
    from .values import SInt
    n = obj.fields.get("len_z")
    if n is None:
        n = I.ctx.fresh_int("acc_len")       # one length per state of the accumulator: len(a) == len(a) between two appends
        I.ctx.assume(n >= 0)
        obj.fields["len_z"] = n
    return SInt(n)


def as_symiter(I, obj):
    """elements of an accumulator of unknown history, for loops / generators over it"""
    from .values import SOpaque, usort

    def mk(I2):
        adds = obj.fields["added"]
        k = I2.ctx.choose(len(adds) + 1, "acc-elem")
        if k < len(adds):
            return adds[k]
        mk0 = obj.fields.get("mk_earlier")
        if mk0 is not None:
            return mk0(I2)
        return SOpaque("pyobject", I2.ctx.fresh("earlier_elem", usort("pyobject")))
    return TheoryObj("symiter", label=f"elements-of({obj.label})", fields={"mk": mk, "of_acc": obj})


def install(reg):
    reg.theory_methods[("acc", "__iter__")] = lambda I, o, a, k: as_symiter(I, o)
    reg.theory_methods[("acc", "__len__")] = _len
    reg.theory_methods[("acc", "append")] = _add
    reg.theory_methods[("acc", "add")] = _add
    reg.theory_methods[("acc", "__setitem__")] = _setitem
