"""Python operator semantics over the symbolic value model.

Semantics assumed (DESIGN 3.2): int = mathematical integer; float = IEEE binary64, RNE;
int<->float comparison exact; str comparison by code point; `==` between unrelated kinds is
False; ordering between unrelated kinds raises TypeError.
"""
from __future__ import annotations

import math

import z3

from .ctx import Unsupported
from .values import (F64, RNE, ClassVal, EnumVal, PDict, PList, PSet, SBool, SBytes, SExc, SFloat,
                     SInt, SMapZ, SObj, SOpaque, SOpt, SRef, SSeq, SSetZ, SStr, SXReal, Sym, to_z3)


class PyExc(Exception):
    """Raised by ops to signal an exception of the analysed program (converted to PyRaise by the interpreter)."""

    def __init__(self, cls, msg=""):
        self.cls = cls
        self.msg = msg


def is_num(v):
    return isinstance(v, (bool, int, float, SInt, SBool, SFloat, SXReal))


def to_xreal(v):
    """extended-real view of an int / concrete float / SXReal"""
    if isinstance(v, SXReal):
        return v
    if isinstance(v, float):
        if math.isnan(v):
            return SXReal(z3.BoolVal(True), z3.IntVal(0), z3.RealVal(0))
        if math.isinf(v):
            return SXReal(z3.BoolVal(False), z3.IntVal(1 if v > 0 else -1), z3.RealVal(0))
        from fractions import Fraction
        fr = Fraction(v)
        return SXReal(z3.BoolVal(False), z3.IntVal(0), z3.RealVal(fr.numerator) / z3.RealVal(fr.denominator))
    if is_intlike(v):
        return SXReal(z3.BoolVal(False), z3.IntVal(0), z3.ToReal(int_z(v)))
    raise Unsupported(f"to_xreal({v!r})")


def xreal_cmp(op, a, b):
    a, b = to_xreal(a), to_xreal(b)
    ok = z3.And(z3.Not(a.nan), z3.Not(b.nan))
    fin = z3.And(a.inf == 0, b.inf == 0)
    if op == "==":
        return z3.And(ok, a.inf == b.inf, z3.Or(a.inf != 0, a.r == b.r))
    if op == "<":
        return z3.And(ok, z3.Or(a.inf < b.inf, z3.And(fin, a.r < b.r)))
    if op == "<=":
        return z3.And(ok, z3.Or(a.inf < b.inf, z3.And(a.inf == b.inf, z3.Or(a.inf != 0, a.r <= b.r))))
    if op == ">":
        return xreal_cmp("<", b, a)
    if op == ">=":
        return xreal_cmp("<=", b, a)
    raise Unsupported(op)


def is_intlike(v):
    return isinstance(v, (bool, int, SInt, SBool))


def is_floatlike(v):
    return isinstance(v, (float, SFloat, SXReal))


def is_strlike(v):
    return isinstance(v, (str, SStr))


def is_byteslike(v):
    return isinstance(v, (bytes, SBytes))


def symbolic(v):
    return isinstance(v, Sym)


def int_z(v):
    if isinstance(v, SInt):
        return v.z
    if isinstance(v, SBool):
        return z3.If(v.z, z3.IntVal(1), z3.IntVal(0))
    if isinstance(v, bool):
        return z3.IntVal(int(v))
    if isinstance(v, int):
        return z3.IntVal(v)
    raise Unsupported(f"int_z({v!r})")


def float_z(v):
    if isinstance(v, SFloat):
        return v.z
    if isinstance(v, float):
        if math.isnan(v):
            return z3.fpNaN(F64)
        if math.isinf(v):
            return z3.fpPlusInfinity(F64) if v > 0 else z3.fpMinusInfinity(F64)
        return z3.FPVal(v, F64)
    raise Unsupported(f"float_z({v!r})")


def str_z(v):
    if isinstance(v, (SStr, SBytes)):
        return v.z
    if isinstance(v, str):
        return z3.StringVal(v)
    if isinstance(v, bytes):
        return z3.StringVal(v.decode("latin-1"))
    raise Unsupported(f"str_z({v!r})")


def bool_z(t):
    return z3.BoolVal(t) if isinstance(t, bool) else t


def mk_bool(z):
    if isinstance(z, bool):
        return z
    z = z3.simplify(z)
    if z3.is_true(z):
        return True
    if z3.is_false(z):
        return False
    return SBool(z)


def mk_int(z):
    if isinstance(z, int):
        return z
    z = z3.simplify(z)
    if z3.is_int_value(z):
        return z.as_long()
    return SInt(z)


def mk_str(z):
    if isinstance(z, str):
        return z
    z = z3.simplify(z)
    if z3.is_string_value(z):
        s = z.as_string()
        if "\\u{" not in s:
            return s
    return SStr(z)


# ------------------------------------------------------------------------------ truthiness
def truth(v):
    """-> python bool or z3 BoolRef"""
    if v is None:
        return False
    if isinstance(v, bool):
        return v
    if isinstance(v, int):
        return v != 0
    if isinstance(v, float):
        return v != 0.0
    if isinstance(v, (str, bytes, tuple, frozenset)):
        return len(v) > 0
    if isinstance(v, SBool):
        return v.z
    if isinstance(v, SInt):
        return v.z != 0
    if isinstance(v, (SStr, SBytes)):
        return z3.Length(v.z) > 0
    if isinstance(v, SFloat):
        return z3.Not(z3.fpIsZero(v.z))
    if isinstance(v, SXReal):
        return z3.Or(v.nan, v.inf != 0, v.r != 0)
    if isinstance(v, SOpt):
        t = truth(v.val)
        return z3.And(z3.Not(v.isnone), bool_z(t))
    if isinstance(v, PList):
        return len(v.items) > 0
    if isinstance(v, PDict):
        return len(v.d) > 0
    if isinstance(v, PSet):
        return len(v.items) > 0
    if isinstance(v, SSeq):
        return z3.Length(v.z) > 0
    if isinstance(v, SSetZ):
        return v.z != z3.EmptySet(v.z.sort().domain())
    if isinstance(v, SMapZ):
        return v.has != z3.K(v.has.sort().domain(), z3.BoolVal(False))
    return True


def py_not(t):
    return (not t) if isinstance(t, bool) else z3.Not(t)


# ------------------------------------------------------------------------------ equality
def _num_eq(a, b):
    if isinstance(a, SXReal) or isinstance(b, SXReal):
        if isinstance(a, SFloat) or isinstance(b, SFloat):
            raise Unsupported("mixing FP-modelled and extended-real-modelled floats")
        return xreal_cmp("==", a, b)
    if is_intlike(a) and is_intlike(b):
        if not symbolic(a) and not symbolic(b):
            return int(a) == int(b)
        return int_z(a) == int_z(b)
    if is_floatlike(a) and is_floatlike(b):
        if not symbolic(a) and not symbolic(b):
            return a == b
        return z3.fpEQ(float_z(a), float_z(b))
    # mixed int / float: exact
    i, f = (a, b) if is_intlike(a) else (b, a)
    if not symbolic(i) and not symbolic(f):
        return int(i) == f
    fz = float_z(f)
    return z3.And(z3.Not(z3.fpIsNaN(fz)), z3.Not(z3.fpIsInf(fz)), z3.ToReal(int_z(i)) == z3.fpToReal(fz))


def py_eq(a, b):
    """Python `==` -> python bool or z3 BoolRef."""
    if a is b and not isinstance(a, (SFloat, SXReal, float, SOpt, tuple, PList, PDict)):
        return True
    if isinstance(a, SOpt):
        if b is None:
            return a.isnone
        if isinstance(b, SOpt):
            return z3.Or(z3.And(a.isnone, b.isnone),
                         z3.And(z3.Not(a.isnone), z3.Not(b.isnone), bool_z(py_eq(a.val, b.val))))
        return z3.And(z3.Not(a.isnone), bool_z(py_eq(a.val, b)))
    if isinstance(b, SOpt):
        return py_eq(b, a)
    if a is None or b is None:
        return a is None and b is None
    if is_num(a) and is_num(b):
        return _num_eq(a, b)
    if is_strlike(a) and is_strlike(b):
        if not symbolic(a) and not symbolic(b):
            return a == b
        return str_z(a) == str_z(b)
    if is_byteslike(a) and is_byteslike(b):
        if not symbolic(a) and not symbolic(b):
            return a == b
        return str_z(a) == str_z(b)
    if isinstance(a, SRef) and isinstance(b, SRef):
        return a.z == b.z if a.cls == b.cls else False
    if isinstance(a, SOpaque) and isinstance(b, SOpaque):
        return a.z == b.z if a.sort == b.sort else False
    if isinstance(a, (EnumVal, ClassVal)) or isinstance(b, (EnumVal, ClassVal)):
        return a == b
    if isinstance(a, tuple) and isinstance(b, tuple):
        if len(a) != len(b):
            return False
        return _conj([py_eq(x, y) for x, y in zip(a, b)])
    if isinstance(a, PList) and isinstance(b, PList):
        if len(a.items) != len(b.items):
            return False
        return _conj([py_eq(x, y) for x, y in zip(a.items, b.items)])
    if isinstance(a, SSeq) and isinstance(b, SSeq):
        return a.z == b.z
    if isinstance(a, SSetZ) and isinstance(b, SSetZ):
        return a.z == b.z
    if isinstance(a, PDict) and isinstance(b, PDict):
        if set(a.d.keys()) != set(b.d.keys()):
            return False
        return _conj([py_eq(a.d[k], b.d[k]) for k in a.d])
    if isinstance(a, (SObj, SExc)) or isinstance(b, (SObj, SExc)):
        return a is b
    # different kinds
    return False


def _conj(parts):
    zs = []
    for p in parts:
        if isinstance(p, bool):
            if not p:
                return False
        else:
            zs.append(p)
    if not zs:
        return True
    return z3.And(*zs) if len(zs) > 1 else zs[0]


def _disj(parts):
    zs = []
    for p in parts:
        if isinstance(p, bool):
            if p:
                return True
        else:
            zs.append(p)
    if not zs:
        return False
    return z3.Or(*zs) if len(zs) > 1 else zs[0]


# ------------------------------------------------------------------------------ ordering
_FLIP = {"<": ">", "<=": ">=", ">": "<", ">=": "<="}


def py_order(op, a, b):
    """a <op> b for op in < <= > >= ; raises PyExc('TypeError') on unrelated kinds."""
    if (isinstance(a, SXReal) and is_num(b)) or (isinstance(b, SXReal) and is_num(a)):
        if isinstance(a, SFloat) or isinstance(b, SFloat):
            raise Unsupported("mixing FP-modelled and extended-real-modelled floats")
        return xreal_cmp(op, a, b)
    if is_intlike(a) and is_intlike(b):
        if not symbolic(a) and not symbolic(b):
            return _cmp_concrete(op, int(a), int(b))
        x, y = int_z(a), int_z(b)
        return {"<": x < y, "<=": x <= y, ">": x > y, ">=": x >= y}[op]
    if is_floatlike(a) and is_floatlike(b):
        if not symbolic(a) and not symbolic(b):
            return _cmp_concrete(op, a, b)
        x, y = float_z(a), float_z(b)
        return {"<": z3.fpLT(x, y), "<=": z3.fpLEQ(x, y), ">": z3.fpGT(x, y), ">=": z3.fpGEQ(x, y)}[op]
    if is_num(a) and is_num(b):
        # mixed int/float, exact (CPython compares the mathematical values)
        if not symbolic(a) and not symbolic(b):
            return _cmp_concrete(op, a, b)
        if is_intlike(a):
            i, f, o = a, b, op
        else:
            i, f, o = b, a, _FLIP[op]
        fz = float_z(f)
        ir = z3.ToReal(int_z(i))
        fr = z3.fpToReal(fz)
        fin = {"<": ir < fr, "<=": ir <= fr, ">": ir > fr, ">=": ir >= fr}[o]
        pinf = z3.And(z3.fpIsInf(fz), z3.fpIsPositive(fz))
        ninf = z3.And(z3.fpIsInf(fz), z3.fpIsNegative(fz))
        lt_like = o in ("<", "<=")
        return z3.If(z3.fpIsNaN(fz), z3.BoolVal(False),
                     z3.If(pinf, z3.BoolVal(lt_like),
                           z3.If(ninf, z3.BoolVal(not lt_like), fin)))
    if is_strlike(a) and is_strlike(b):
        if not symbolic(a) and not symbolic(b):
            return _cmp_concrete(op, a, b)
        x, y = str_z(a), str_z(b)
        return {"<": x < y, "<=": x <= y, ">": y < x, ">=": y <= x}[op]
    if is_byteslike(a) and is_byteslike(b):
        if not symbolic(a) and not symbolic(b):
            return _cmp_concrete(op, a, b)
        x, y = str_z(a), str_z(b)
        return {"<": x < y, "<=": x <= y, ">": y < x, ">=": y <= x}[op]
    if isinstance(a, tuple) and isinstance(b, tuple) and not symbolic(a) and not symbolic(b):
        try:
            return _cmp_concrete(op, a, b)
        except TypeError:
            raise PyExc("TypeError")
    raise PyExc("TypeError", f"'{op}' not supported between {type(a).__name__} and {type(b).__name__}")


def _cmp_concrete(op, a, b):
    return {"<": a < b, "<=": a <= b, ">": a > b, ">=": a >= b}[op]


# ------------------------------------------------------------------------------ arithmetic
def py_binop(op, a, b, ctx):
    """op: '+','-','*','//','%','/','**','&','|' ..."""
    if not symbolic(a) and not symbolic(b) and not isinstance(a, (PList, PSet, PDict)) \
            and not isinstance(b, (PList, PSet, PDict)):
        try:
            return _concrete_binop(op, a, b)
        except ZeroDivisionError:
            raise PyExc("ZeroDivisionError")
        except TypeError:
            raise PyExc("TypeError")
        except (OverflowError, ValueError) as e:
            raise PyExc(type(e).__name__)
    if op == "+":
        if is_strlike(a) and is_strlike(b):
            return mk_str(z3.Concat(str_z(a), str_z(b)))
        if is_byteslike(a) and is_byteslike(b):
            return SBytes(z3.Concat(str_z(a), str_z(b)))
        if isinstance(a, PList) and isinstance(b, PList):
            return PList(a.items + b.items)
        if isinstance(a, SSeq) and isinstance(b, SSeq):
            return SSeq(a.kind, z3.Concat(a.z, b.z))
        if isinstance(a, SSeq) and isinstance(b, PList):
            return SSeq(a.kind, z3.Concat(a.z, *[z3.Unit(to_z3(x)) for x in b.items]) if b.items else a.z)
    if op == "|":
        if isinstance(a, SSetZ) and isinstance(b, SSetZ):
            return SSetZ(a.kind, z3.SetUnion(a.z, b.z))
        if isinstance(a, PSet) and isinstance(b, PSet):
            return PSet(a.items + b.items)
        if isinstance(a, SSetZ) and isinstance(b, PSet):
            z = a.z
            for it in b.items:
                z = z3.SetAdd(z, to_z3(it))
            return SSetZ(a.kind, z)
        if isinstance(a, PSet) and isinstance(b, SSetZ):
            return py_binop(op, b, a, ctx)
    if op == "-" and isinstance(a, PSet) and isinstance(b, PSet):
        # set difference of two small sets with possibly symbolic elements: membership of each element is decided (forks)
        out = []
        for x in a.items:
            e = _disj([py_eq(x, y) for y in b.items])
            present = e if isinstance(e, bool) else (ctx.decide(bool_z(e), "set-diff-member") if ctx is not None else None)
            if present is None:
                raise Unsupported("set difference with symbolic elements needs a context")
            if not present:
                out.append(x)
        return PSet(out)
    if op == "-" and isinstance(a, SSetZ) and isinstance(b, SSetZ):
        return SSetZ(a.kind, z3.SetDifference(a.z, b.z))
    if op == "&" and isinstance(a, SSetZ) and isinstance(b, SSetZ):
        return SSetZ(a.kind, z3.SetIntersect(a.z, b.z))
    if op == "**" and is_intlike(a) and is_intlike(b):
        # integer power with a symbolic operand: an uninterpreted function (only its sign is known)
        POW = z3.Function("py.int_pow", z3.IntSort(), z3.IntSort(), z3.IntSort())
        x, y = int_z(a), int_z(b)
        r = POW(x, y)
        ctx.assume(z3.Implies(z3.And(x >= 1, y >= 0), r >= 1))
        return mk_int(r)
    if (isinstance(a, float) and isinstance(b, (SInt, SBool))) or (isinstance(b, float) and isinstance(a, (SInt, SBool))):
        # a float constant combined with a symbolic integer (delays, timeouts): real arithmetic (A-real-time)
        a = to_xreal(a) if isinstance(a, float) else a
        b = to_xreal(b) if isinstance(b, float) else b
    if isinstance(a, SXReal) or isinstance(b, SXReal):
        # time arithmetic: exact real arithmetic on finite values (A-real-time: binary64 rounding ignored)
        if not (is_num(a) and is_num(b)) or isinstance(a, SFloat) or isinstance(b, SFloat):
            raise PyExc("TypeError")
        xa, xb = to_xreal(a), to_xreal(b)
        ctx.assume(z3.And(z3.Not(xa.nan), z3.Not(xb.nan), xa.inf == 0, xb.inf == 0), "A-real-time: timestamps finite; float rounding ignored")
        if op == "+":
            r = xa.r + xb.r
        elif op == "-":
            r = xa.r - xb.r
        elif op == "*":
            r = xa.r * xb.r
        elif op == "/":
            if ctx.decide(xb.r == 0, "divzero"):
                raise PyExc("ZeroDivisionError")
            r = xa.r / xb.r
        else:
            raise Unsupported(f"extended-real binop {op}")
        return SXReal(z3.BoolVal(False), z3.IntVal(0), r)
    if is_intlike(a) and is_intlike(b):
        x, y = int_z(a), int_z(b)
        if op == "+":
            return mk_int(x + y)
        if op == "-":
            return mk_int(x - y)
        if op == "*":
            return mk_int(x * y)
        if op in ("//", "%"):
            if ctx.decide(y == 0, "divzero"):
                raise PyExc("ZeroDivisionError")
            # python floor division; z3 int div rounds so that 0 <= r < |y|
            q = z3.If(y > 0, x / y, (-x) / (-y))
            if op == "//":
                return mk_int(q)
            return mk_int(x - y * q)
        if op == "/":
            if ctx.decide(y == 0, "divzero"):
                raise PyExc("ZeroDivisionError")
            return SFloat(z3.fpDiv(RNE, z3.fpToFP(RNE, z3.ToReal(x), F64), z3.fpToFP(RNE, z3.ToReal(y), F64)))
        if op == "&" and isinstance(b, int) and b >= 0 and (b & (b + 1)) == 0:
            # x & (2^k - 1) == x mod 2^k for non-negative modulus mask
            return mk_int(x % (b + 1))
        raise Unsupported(f"int binop {op}")
    if is_num(a) and is_num(b):
        # float arithmetic (ints are converted as CPython does: exact int -> nearest double)
        def tof(v):
            if is_floatlike(v):
                return float_z(v)
            return z3.fpToFP(RNE, z3.ToReal(int_z(v)), F64)
        x, y = tof(a), tof(b)
        if op == "+":
            return SFloat(z3.fpAdd(RNE, x, y))
        if op == "-":
            return SFloat(z3.fpSub(RNE, x, y))
        if op == "*":
            return SFloat(z3.fpMul(RNE, x, y))
        if op == "/":
            if ctx.decide(z3.fpIsZero(y), "divzero"):
                raise PyExc("ZeroDivisionError")
            return SFloat(z3.fpDiv(RNE, x, y))
        raise Unsupported(f"float binop {op}")
    raise PyExc("TypeError", f"unsupported operand types for {op}: {type(a).__name__}, {type(b).__name__}")


def _concrete_binop(op, a, b):
    if op == "+":
        return a + b
    if op == "-":
        return a - b
    if op == "*":
        return a * b
    if op == "//":
        return a // b
    if op == "%":
        return a % b
    if op == "/":
        return a / b
    if op == "**":
        return a ** b
    if op == "&":
        return a & b
    if op == "|":
        return a | b
    if op == "^":
        return a ^ b
    if op == "<<":
        return a << b
    if op == ">>":
        return a >> b
    raise Unsupported(f"binop {op}")


def py_neg(a):
    if not symbolic(a):
        return -a
    if is_intlike(a):
        return mk_int(-int_z(a))
    if is_floatlike(a):
        return SFloat(z3.fpNeg(float_z(a)))
    raise PyExc("TypeError")


def _xreal_ite(c, x, y):
    x, y = to_xreal(x), to_xreal(y)
    return SXReal(z3.If(c, x.nan, y.nan), z3.If(c, x.inf, y.inf), z3.If(c, x.r, y.r))


def py_min2(a, b):
    lt = py_order("<", b, a)
    if isinstance(lt, bool):
        return b if lt else a
    if isinstance(a, SXReal) or isinstance(b, SXReal):
        return _xreal_ite(lt, b, a)
    if is_intlike(a) and is_intlike(b):
        return mk_int(z3.If(lt, int_z(b), int_z(a)))
    if is_floatlike(a) and is_floatlike(b):
        return SFloat(z3.If(lt, float_z(b), float_z(a)))
    raise Unsupported("min over mixed symbolic kinds")


def py_max2(a, b):
    gt = py_order(">", b, a)
    if isinstance(gt, bool):
        return b if gt else a
    if isinstance(a, SXReal) or isinstance(b, SXReal):
        return _xreal_ite(gt, b, a)
    if is_intlike(a) and is_intlike(b):
        return mk_int(z3.If(gt, int_z(b), int_z(a)))
    if is_floatlike(a) and is_floatlike(b):
        return SFloat(z3.If(gt, float_z(b), float_z(a)))
    raise Unsupported("max over mixed symbolic kinds")


def int_to_str_z(x):
    """str(int) as a z3 string term (handles negatives)."""
    return z3.If(x >= 0, z3.IntToStr(x), z3.Concat(z3.StringVal("-"), z3.IntToStr(-x)))


def py_len(v):
    if isinstance(v, (str, bytes, tuple, frozenset)):
        return len(v)
    if isinstance(v, (SStr, SBytes)):
        return mk_int(z3.Length(v.z))
    if isinstance(v, PList):
        return len(v.items)
    if isinstance(v, PDict):
        return len(v.d)
    if isinstance(v, SSeq):
        return mk_int(z3.Length(v.z))
    if isinstance(v, PSet):
        if all(not symbolic(x) for x in v.items):
            return len(set(v.items))
        raise Unsupported("len of a set with symbolic members")
    raise Unsupported(f"len({type(v).__name__})")
