"""cvc5 driver: parses an SMT-LIB 2 file with the cvc5 python package and prints the verdict."""
import sys


def main():
    path, tlimit = sys.argv[1], int(sys.argv[2])
    fmf = "--fmf" in sys.argv
    import cvc5

    slv = cvc5.Solver()
    slv.setOption("strings-exp", "true")
    slv.setOption("arrays-exp", "true")
    slv.setOption("tlimit-per", str(tlimit))
    slv.setOption("produce-models", "true")
    if fmf:
        slv.setOption("strings-fmf", "true")
    parser = cvc5.InputParser(slv)
    parser.setFileInput(cvc5.InputLanguage.SMT_LIB_2_6, path)
    sm = parser.getSymbolManager()
    result = None
    while True:
        cmd = parser.nextCommand()
        if cmd.isNull():
            break
        out = cmd.invoke(slv, sm)
        s = str(out).strip()
        if s in ("sat", "unsat", "unknown") or s.startswith("unknown"):
            result = s
            break
    print(result or "unknown")


if __name__ == "__main__":
    try:
        main()
    except Exception as e:  # any parser/solver error is an 'unknown', never a verdict
        print("unknown")
        print(f"cvc5 error: {e}")
