"""Symbolic value model.

Concrete Python values (int, bool, str, bytes, float, None, tuple, frozenset of concretes) are
represented by themselves.  Everything else is one of the classes below.  Python `int` is the
mathematical integer (z3 Int), `float` is IEEE binary64 (z3 FP 11/53, RNE), `str` a sequence of
code points (z3 String), `bytes` a z3 String whose characters are < 256 (tagged separately so
str/bytes never compare equal).
"""
from __future__ import annotations

import z3

F64 = z3.Float64()
RNE = z3.RNE()


class Sym:
    __slots__ = ()


class SInt(Sym):
    __slots__ = ("z",)

    def __init__(self, z):
        self.z = z

    def __repr__(self):
        return f"SInt({self.z})"


class SBool(Sym):
    __slots__ = ("z",)

    def __init__(self, z):
        self.z = z

    def __repr__(self):
        return f"SBool({self.z})"


class SStr(Sym):
    __slots__ = ("z",)

    def __init__(self, z):
        self.z = z

    def __repr__(self):
        return f"SStr({self.z})"


class SBytes(Sym):
    __slots__ = ("z",)

    def __init__(self, z):
        self.z = z

    def __repr__(self):
        return f"SBytes({self.z})"


class SFloat(Sym):
    __slots__ = ("z",)

    def __init__(self, z):
        self.z = z

    def __repr__(self):
        return f"SFloat({self.z})"


class SXReal(Sym):
    """A Python float seen only through comparisons: extended real (nan flag, inf in {-1,0,1}, real value).
    Exact for ==, !=, <, <=, >, >= (IEEE-754 comparison = order of the extended reals, NaN unordered, -0.0 == 0.0);
    arithmetic on it is Unsupported."""
    __slots__ = ("nan", "inf", "r")

    def __init__(self, nan, inf, r):
        self.nan = nan
        self.inf = inf
        self.r = r

    def __repr__(self):
        return f"SXReal({self.nan},{self.inf},{self.r})"


class SOpt(Sym):
    """None-or-value.  `val` is a Sym (or concrete) of the underlying kind."""
    __slots__ = ("isnone", "val")

    def __init__(self, isnone, val):
        self.isnone = isnone
        self.val = val

    def __repr__(self):
        return f"SOpt({self.isnone}, {self.val})"


class SOpaque(Sym):
    """A value of an uninterpreted sort (e.g. an Arrow table, a lock token)."""
    __slots__ = ("sort", "z")

    def __init__(self, sort, z):
        self.sort = sort
        self.z = z

    def __repr__(self):
        return f"SOpaque<{self.sort}>({self.z})"


class SObj:
    """An individually known object (identity = Python identity of this wrapper)."""

    def __init__(self, cls, fields=None, label=None):
        self.cls = cls  # class name (str)
        self.fields = dict(fields or {})
        self.label = label or cls

    def __repr__(self):
        return f"<{self.label}>"


class SRef(Sym):
    """Reference into the array-modelled heap: object `z` (Int) of class `cls`."""
    __slots__ = ("cls", "z")

    def __init__(self, cls, z):
        self.cls = cls
        self.z = z

    def __repr__(self):
        return f"SRef<{self.cls}>({self.z})"


class PList:
    """A Python list of known length (elements may be symbolic). Mutable, identity matters."""

    def __init__(self, items=None):
        self.items = list(items or [])

    def __repr__(self):
        return f"PList({self.items})"


class PDict:
    """A dict with concrete, hashable keys (values may be symbolic); insertion ordered."""

    def __init__(self, d=None):
        self.d = dict(d or {})

    def __repr__(self):
        return f"PDict({self.d})"


class PSet:
    """A set with a known finite list of candidate members (members may be symbolic)."""

    def __init__(self, items=None):
        self.items = list(items or [])

    def __repr__(self):
        return f"PSet({self.items})"


class SSeq(Sym):
    """A list of unknown length: z3 Seq over the element sort. Mutable via rebinding `z`."""

    def __init__(self, kind, z):
        self.kind = kind  # element kind descriptor (see wrap())
        self.z = z

    def __repr__(self):
        return f"SSeq<{self.kind}>({self.z})"


class SSetZ(Sym):
    """A set of unknown cardinality: z3 Array elem -> Bool. Mutable via rebinding `z`."""

    def __init__(self, kind, z):
        self.kind = kind
        self.z = z

    def __repr__(self):
        return f"SSetZ<{self.kind}>"


class SMapZ(Sym):
    """dict with symbolic keys: has: K->Bool, val: K->V (V kind may be ('opt', k))."""

    def __init__(self, kkind, vkind, has, val, valnone=None):
        self.kkind = kkind
        self.vkind = vkind
        self.has = has
        self.val = val
        self.valnone = valnone  # K->Bool when vkind is optional

    def __repr__(self):
        return f"SMapZ<{self.kkind}->{self.vkind}>"


class EnumVal:
    def __init__(self, cls, name, value):
        self.cls = cls
        self.name = name
        self.value = value

    def __eq__(self, o):
        return isinstance(o, EnumVal) and o.cls == self.cls and o.name == self.name

    def __hash__(self):
        return hash((self.cls, self.name))

    def __repr__(self):
        return f"{self.cls}.{self.name}"


class ClassVal:
    def __init__(self, name, info=None, builtin_exc=False):
        self.name = name
        self.info = info  # extract.ClassInfo or None
        self.builtin_exc = builtin_exc

    def __repr__(self):
        return f"<class {self.name}>"

    def __eq__(self, o):
        return isinstance(o, ClassVal) and o.name == self.name

    def __hash__(self):
        return hash(("cls", self.name))


class SExc:
    """An exception instance of the analysed program."""

    def __init__(self, cls: str, args=(), cause=None, fields=None, origin=None):
        self.cls = cls
        self.args = tuple(args)
        self.cause = cause
        self.fields = dict(fields or {})
        self.origin = origin  # free text: where it was raised (event id / fault edge)

    def __repr__(self):
        return f"{self.cls}({self.origin or ''})"


class FuncVal:
    def __init__(self, module, qualname, node, closure=None, bound_self=None, owner_cls=None):
        self.module = module
        self.qualname = qualname
        self.node = node
        self.closure = closure  # Env of the defining function (for nested defs / lambdas)
        self.bound_self = bound_self
        self.owner_cls = owner_cls

    @property
    def ref(self):
        return f"{self.module}:{self.qualname}"

    def __repr__(self):
        return f"<fn {self.ref}>"


class Builtin:
    def __init__(self, name, fn):
        self.name = name
        self.fn = fn  # fn(interp, args, kwargs) -> value

    def __repr__(self):
        return f"<builtin {self.name}>"


class BoundMethod:
    """method `name` of a non-repo value (str, list, dict, theory object...)."""

    def __init__(self, recv, name):
        self.recv = recv
        self.name = name

    def __repr__(self):
        return f"<method {self.name} of {self.recv!r}>"


class ModuleVal:
    def __init__(self, name):
        self.name = name

    def __repr__(self):
        return f"<module {self.name}>"


class TheoryObj:
    """An object whose behaviour is given by a trusted theory (storage backend, S3 client, lock...)."""

    def __init__(self, theory, label=None, fields=None):
        self.theory = theory
        self.label = label or theory
        self.fields = dict(fields or {})

    def __repr__(self):
        return f"<theory {self.label}>"


class Ignored:
    """logger objects, typing constructs, and other values whose uses are dropped."""

    def __init__(self, what="ignored"):
        self.what = what

    def __repr__(self):
        return f"<{self.what}>"


# ---------------------------------------------------------------------------------------------
# kinds: 'int' | 'bool' | 'str' | 'bytes' | 'float' | ('opt', kind) | ('ref', cls) | ('opaque', sort)

_SORTS = {}


def usort(name):
    if name not in _SORTS:
        _SORTS[name] = z3.DeclareSort(name)
    return _SORTS[name]


def sort_of(kind):
    if kind == "int":
        return z3.IntSort()
    if kind == "bool":
        return z3.BoolSort()
    if kind in ("str", "bytes"):
        return z3.StringSort()
    if kind == "float":
        return F64
    if isinstance(kind, tuple) and kind[0] == "ref":
        return z3.IntSort()
    if isinstance(kind, tuple) and kind[0] == "opaque":
        return usort(kind[1])
    if isinstance(kind, tuple) and kind[0] == "opt":
        raise ValueError("optional kinds have no single sort")
    raise ValueError(f"no sort for kind {kind!r}")


def wrap(kind, z):
    if kind == "int":
        return SInt(z)
    if kind == "bool":
        return SBool(z)
    if kind == "str":
        return SStr(z)
    if kind == "bytes":
        return SBytes(z)
    if kind == "float":
        return SFloat(z)
    if isinstance(kind, tuple) and kind[0] == "ref":
        return SRef(kind[1], z)
    if isinstance(kind, tuple) and kind[0] == "opaque":
        return SOpaque(kind[1], z)
    raise ValueError(f"cannot wrap kind {kind!r}")


def kind_of(v):
    if isinstance(v, bool) or isinstance(v, SBool):
        return "bool"
    if isinstance(v, int) or isinstance(v, SInt):
        return "int"
    if isinstance(v, str) or isinstance(v, SStr):
        return "str"
    if isinstance(v, bytes) or isinstance(v, SBytes):
        return "bytes"
    if isinstance(v, float) or isinstance(v, (SFloat, SXReal)):
        return "float"
    if v is None:
        return "none"
    if isinstance(v, SOpt):
        return ("opt", kind_of(v.val))
    if isinstance(v, SRef):
        return ("ref", v.cls)
    if isinstance(v, SOpaque):
        return ("opaque", v.sort)
    return type(v).__name__


def to_z3(v):
    """z3 term of a scalar value (concrete or symbolic)."""
    if isinstance(v, (SInt, SBool, SStr, SBytes, SFloat, SRef, SOpaque)):
        return v.z
    if isinstance(v, bool):
        return z3.BoolVal(v)
    if isinstance(v, int):
        return z3.IntVal(v)
    if isinstance(v, str):
        return z3.StringVal(v)
    if isinstance(v, bytes):
        return z3.StringVal(v.decode("latin-1"))
    if isinstance(v, float):
        return z3.FPVal(v, F64)
    raise ValueError(f"no z3 term for {v!r}")


def is_concrete(v):
    return v is None or isinstance(v, (bool, int, str, bytes, float, EnumVal, ClassVal)) or \
        (isinstance(v, (tuple, frozenset)) and all(is_concrete(x) for x in v))
