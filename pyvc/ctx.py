"""Per-path verification context: path condition, replayed decisions, obligations, ghost state.

Exploration is path-at-a-time: the harness (and through it the interpreter walking the real
AST) is re-run once per path; every symbolic branch asks `decide`, which replays the recorded
prefix and, beyond it, takes the first feasible alternative and schedules the others.
"""
from __future__ import annotations

import time
from dataclasses import dataclass, field
from typing import Any, Dict, List, Optional

import z3

from . import solve


class PathEnd(Exception):
    """This path is over (assume False / loop cut / infeasible)."""


class Unsupported(Exception):
    """Construct outside the supported subset: the unit is undecided, never a verdict."""


class EngineError(Exception):
    """Internal inconsistency of the checker (exit 3)."""


@dataclass
class ObResult:
    name: str
    verdict: str  # 'unsat' (discharged) | 'sat' (refuted) | 'unknown'
    backend: str
    secs: float
    path: str
    model: Optional[Dict[str, Any]] = None
    note: str = ""
    smt2: str = ""
    kind: str = "assert"  # assert | cover
    klass: str = ""  # for refuted obligations: which known-finding class the model is in ('' = none)
    detail: str = ""


@dataclass
class Config:
    z3_timeout_ms: int = 10000
    cvc5_timeout_ms: int = 20000
    feas_timeout_ms: int = 1500
    max_paths: int = 20000
    keep_smt2: bool = False


class Ctx:
    def __init__(self, decisions: List[Any], cfg: Config, unit: str):
        self.cfg = cfg
        self.unit = unit
        self.pc: List[z3.BoolRef] = []
        self.decisions = list(decisions)
        self.pos = 0
        self.forks: List[List[Any]] = []
        self.obls: List[ObResult] = []
        self.n = 0
        self.ghost: Dict[str, Any] = {}
        self.trace: List[Any] = []
        self.inputs: Dict[str, Any] = {}  # name -> z3 term (reported from counter-models)
        self.notes: List[str] = []
        self.assumed: set = set()  # names of theory axioms / assumptions actually used on this path
        self.covered: set = set()
        self.decision_tags: List[str] = []

    # ------------------------------------------------------------------ naming
    def fresh_name(self, prefix: str) -> str:
        self.n += 1
        return f"{prefix}!{self.n}"

    def fresh(self, prefix: str, sort) -> z3.ExprRef:
        return z3.Const(self.fresh_name(prefix), sort)

    def fresh_int(self, prefix="i"):
        return z3.Int(self.fresh_name(prefix))

    def fresh_bool(self, prefix="b"):
        return z3.Bool(self.fresh_name(prefix))

    def fresh_str(self, prefix="s"):
        return z3.String(self.fresh_name(prefix))

    def path_id(self) -> str:
        return "".join(("T" if d is True else "F" if d is False else f"[{d}]") for d in self.decisions[: self.pos]) or "-"

    # ------------------------------------------------------------------ assumptions
    def assume(self, b, why: str = None) -> None:
        if isinstance(b, bool):
            if not b:
                raise PathEnd()
            return
        b = z3.simplify(b)
        if z3.is_false(b):
            raise PathEnd()
        if z3.is_true(b):
            return
        self.pc.append(b)
        if why:
            self.assumed.add(why)

    def use(self, assumption: str) -> None:
        self.assumed.add(assumption)

    # ------------------------------------------------------------------ branching
    def _quick(self, extra) -> str:
        return solve.quick_sat(self.pc + [extra], self.cfg.feas_timeout_ms)

    def decide(self, cond, tag: str = "") -> bool:
        """Branch on a symbolic condition.  EVERY call with a z3 condition consumes one decision slot (also when the
        condition happens to simplify to a constant: z3's simplifier is history dependent, and the slot sequence must be
        identical when a prefix is replayed)."""
        if isinstance(cond, bool):
            return cond
        cond = z3.simplify(cond)
        self.decision_tags.append(("d", tag, str(cond)[:80]))
        if self.pos < len(self.decisions):
            v = self.decisions[self.pos]
            if not isinstance(v, bool):
                raise EngineError(f"decision replay mismatch at {self.pos}: expected bool, got {v!r}; tags so far: {self.decision_tags[-6:]}")
        else:
            if z3.is_true(cond):
                v = True
            elif z3.is_false(cond):
                v = False
            else:
                t = self._quick(cond)
                f = self._quick(z3.Not(cond)) if t != "unsat" else "sat"
                if t != "unsat" and f != "unsat":
                    v = True
                    self.forks.append(self.decisions + [False])
                elif t != "unsat":
                    v = True
                elif f != "unsat":
                    v = False
                else:
                    raise PathEnd()
            self.decisions.append(v)
        self.pos += 1
        if not (z3.is_true(cond) or z3.is_false(cond)):
            self.pc.append(cond if v else z3.Not(cond))
        elif z3.is_true(cond) != v:
            raise PathEnd()   # replayed decision contradicts a condition that is now constant: infeasible
        return v

    def choose(self, n: int, tag: str = "") -> int:
        """n-way nondeterministic choice (all alternatives are explored)."""
        if n <= 0:
            raise PathEnd()
        if n == 1:
            return 0
        self.decision_tags.append(("c", tag, n))
        if self.pos < len(self.decisions):
            v = self.decisions[self.pos]
            if isinstance(v, bool) or not isinstance(v, int):
                raise EngineError(f"decision replay mismatch at {self.pos}: expected choice, got {v!r}; tags so far: {self.decision_tags[-6:]}")
        else:
            v = 0
            for k in range(1, n):
                self.forks.append(self.decisions + [k])
            self.decisions.append(0)
        self.pos += 1
        return v

    def flip(self, tag: str = "") -> bool:
        return self.choose(2, tag) == 1

    # ------------------------------------------------------------------ obligations
    def _model_values(self, model) -> Dict[str, Any]:
        out: Dict[str, Any] = {}
        if model is None:
            return out
        if isinstance(model, dict):   # values fetched from cvc5
            return dict(model)
        for name, term in self.inputs.items():
            try:
                val = model.eval(term, model_completion=True)
                out[name] = _pyval(val)
            except Exception as e:  # pragma: no cover
                out[name] = f"<eval error {e}>"
        return out

    def check(self, name: str, claim, detail: str = "", classes=None) -> bool:
        """Proof obligation: pc => claim.  Afterwards the claim is assumed.

        classes: optional list of (label, z3 predicate) *active* known-finding classes K_i.  Then the obligation is
        decided as two queries: (pc and not K_1 ... and not claim) must be unsat (the property holds outside the known
        classes; a model here is a NEW violation), and (pc and K_i and not claim) must be sat for some i (the finding
        still exists; otherwise the entry is stale and the obligation simply counts as discharged).
        """
        full = f"{self.unit}/{name}"
        if isinstance(claim, bool):
            claim = z3.BoolVal(claim)
        sclaim = z3.simplify(claim)
        if z3.is_true(sclaim):
            self.obls.append(ObResult(full, "unsat", "simplifier", 0.0, self.path_id(), detail=detail))
            return True
        neg = z3.Not(claim)
        T, CT = self.cfg.z3_timeout_ms, self.cfg.cvc5_timeout_ms
        if classes:
            notk = z3.And(*[z3.Not(k) for _l, k in classes])
            v, m, backend, dt, note = solve.decide(self.pc + [notk, neg], T, CT, values=self.inputs)
            res = ObResult(full, v, backend, dt, self.path_id(), note=note, detail=detail)
            if v == "sat":
                res.model = self._model_values(m)
                res.note = (note + "; counter-model OUTSIDE the known-finding classes").strip("; ")
            elif v == "unsat":
                # the finding itself: still present?
                for lab, k in classes:
                    v2, m2, b2, dt2, n2 = solve.decide(self.pc + [k, neg], T, CT, values=self.inputs)
                    res.secs += dt2
                    if v2 == "sat":
                        res.verdict = "sat"
                        res.klass = lab
                        res.model = self._model_values(m2)
                        res.backend = f"{backend}+{b2}"
                        res.note = f"outside the classes: proved by {backend}; inside [{lab}]: counter-model by {b2}"
                        break
                    if v2 == "unknown":
                        res.verdict = "unknown"
                        res.note = f"outside the classes: proved; inside [{lab}]: solver unknown"
        else:
            v, m, backend, dt, note = solve.decide(self.pc + [neg], T, CT, values=self.inputs)
            res = ObResult(full, v, backend, dt, self.path_id(), note=note, detail=detail)
            if v == "sat":
                res.model = self._model_values(m)
        if res.verdict != "unsat" and self.cfg.keep_smt2:
            try:
                res.smt2 = solve.to_smt2(self.pc + [neg])
            except Exception:
                pass
        self.obls.append(res)
        # continue the path under the claim (standard assert-then-assume)
        self.assume(claim)
        return res.verdict == "unsat"

    def cover(self, name: str, cond=True) -> None:
        """Reachability (anti-vacuity): this point with `cond` must be satisfiable on some path."""
        full = f"{self.unit}/{name}"
        if isinstance(cond, bool):
            cond = z3.BoolVal(cond)
        v, _m, _w, dt, _s = solve.z3_check(self.pc + [cond], self.cfg.z3_timeout_ms, want_model=False)
        self.obls.append(ObResult(full, "sat" if v == "sat" else ("unsat" if v == "unsat" else "unknown"),
                                  "z3", dt, self.path_id(), kind="cover"))

    def feasible(self) -> bool:
        v, _m, _w, _dt, _s = solve.z3_check(self.pc, self.cfg.feas_timeout_ms, want_model=False)
        return v != "unsat"

    def stop(self) -> None:
        raise PathEnd()


def _pyval(v):
    try:
        if z3.is_int_value(v):
            return v.as_long()
        if z3.is_true(v):
            return True
        if z3.is_false(v):
            return False
        if z3.is_string_value(v):
            return v.as_string()
        if z3.is_fp(v):
            return str(v)
        if z3.is_rational_value(v):
            return float(v.as_fraction())
    except Exception:
        pass
    return str(v)
