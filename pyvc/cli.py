import argparse
import os
import sys

VERIF = os.path.dirname(os.path.dirname(os.path.abspath(__file__)))
sys.path.insert(0, VERIF)
sys.setrecursionlimit(20000)


def main():
    ap = argparse.ArgumentParser()
    ap.add_argument("prop")
    ap.add_argument("--tier", default=os.environ.get("VERIF_TIER", "quick"), choices=["quick", "thorough"])
    ap.add_argument("--replay", default=None)
    ap.add_argument("--jobs", type=int, default=0)
    ap.add_argument("--unit", default=None, help="run only units whose name contains this string (debugging)")
    a = ap.parse_args()
    seed = int(os.environ.get("VERIF_SEED", "0") or 0)
    from pyvc import runner
    if a.replay:
        ok, out = runner.run_replay(a.replay)
        print(out)
        if ok:
            print(f"VIOLATION property={a.prop} replay={a.replay}")
            sys.exit(1)
        sys.exit(0)
    if a.unit:
        import importlib
        importlib.import_module(f"contracts.{runner._module_of(a.prop)}")
        us = runner._UNITS[a.prop]
        runner._UNITS[a.prop] = [u for u in us if a.unit in u.name]
    try:
        rc = runner.run_property(a.prop, a.tier, seed, a.jobs)
    except Exception as e:
        import traceback
        traceback.print_exc()
        print(f"CHECKER-ERROR property={a.prop} {type(e).__name__}: {e}")
        sys.exit(3)
    sys.exit(rc)


if __name__ == "__main__":
    main()
