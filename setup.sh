#!/bin/sh
# Builds /verif/.venv offline: python 3.12 (same interpreter family as /venv, which runs the
# repository) + z3-solver, cvc5 from the local wheelhouse + a .pth that makes /venv's
# site-packages (pyarrow, fastavro, boto3, editable datashard -> /repo/src) importable.
# Idempotent; ./check calls it when .venv is missing.
set -e
HERE="$(cd "$(dirname "$0")" && pwd)"
V="$HERE/.venv"
if [ -x "$V/bin/python" ] && "$V/bin/python" -c "import z3, cvc5, pyarrow, fastavro, datashard" 2>/dev/null; then
  exit 0
fi
rm -rf "$V"
BASE=/root/.pyenv/versions/3.12.1/bin/python3.12
[ -x "$BASE" ] || BASE="$(/venv/bin/python -c 'import sys; print(sys._base_executable)')"
"$BASE" -m venv --without-pip "$V"
SP="$V/lib/python3.12/site-packages"
echo "import site; site.addsitedir('/venv/lib/python3.12/site-packages')" > "$SP/_repo.pth"
PIP_NO_INDEX=1 /venv/bin/python -m pip install --quiet --no-index --find-links /opt/veriftools/wheels \
  --target "$SP" z3-solver cvc5 jsonschema >/dev/null
"$V/bin/python" -c "import z3, cvc5, pyarrow, fastavro, datashard; print('verif venv ok', z3.get_version_string())"
